#!/usr/bin/env python3
"""Regenerates the auto-generated block of known_findings.txt that lists, one per line, the specific
(input, memo policy) pairs (C17) and the specific inputs (C12, C02) whose result depends on memo
eviction on the CURRENT tree of /repo (finding F10).  Run by hand after /repo changed; never by a check.
usage: tools/regen_memo_findings.py [quick|thorough]"""
import re, subprocess, sys, os
V = '/verif'
tier = sys.argv[1] if len(sys.argv) > 1 else 'quick'
kf = os.path.join(V, 'known_findings.txt')
s = open(kf).read()
B, E = '# BEGIN auto-generated memo-dependent cases (tools/regen_memo_findings.py)\n', '# END auto-generated memo-dependent cases\n'
if B in s:
    s = s[:s.index(B)] + s[s.index(E) + len(E):]
open(kf, 'w').write(s)   # without the block everything memo-dependent is reported
subprocess.run([os.path.join(V, 'check'), 'build'], check=True)
lines = set()
for prop in ['C17', 'C12', 'C02']:
    for t in (['quick', 'thorough'] if tier == 'thorough' else ['quick']):
        subprocess.run([os.path.join(V, '.target/release/svcheck'), 'run', prop, t], cwd=V, stdout=subprocess.DEVNULL, stderr=subprocess.DEVNULL, env=dict(os.environ, VERIF_DIR=V))
        for l in open(os.path.join(V, '.work', prop, 'violations.txt'), newline='\n'):
            part, idx, d = l.rstrip('\n').split('\t', 2)
            m = re.match(r'\[sig (result-depends-on-memo-eviction/in=[0-9a-f]{16}|in=[0-9a-f]{16}/[a-z0-9-]+)\]', d)
            if m:
                what = re.search(r'source: (".{0,90})', d)
                lines.add('finding: property=%s sig=%s memo-dependent result (F10 / F11, see the general C17 entries); %s' % (prop, m.group(1), (what.group(1) if what else '')))
block = B + ''.join(sorted(l + '\n' for l in lines)) + E
open(kf, 'w').write(s + block)
print('listed', len(lines), 'memo-dependent cases')
