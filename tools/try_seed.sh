#!/bin/bash
# usage: tools/try_seed.sh <patch.diff> <Cxx> [<Cxx> ...]   - applies the patch to /repo, runs the quick checks, restores /repo
set -u
patch="$1"; shift
cd /repo || exit 2
if ! git diff --quiet; then echo "try_seed: /repo has uncommitted changes"; exit 2; fi
git apply "$patch" || { echo "try_seed: patch does not apply"; exit 2; }
for p in "$@"; do
  /verif/check "$p" ${TIER:-quick} > /tmp/try_seed_$p.log 2>&1
  rc=$?
  echo "== $p exit=$rc  $(grep -c '^VIOLATION' /tmp/try_seed_$p.log) violation line(s); $(tail -1 /tmp/try_seed_$p.log | cut -c1-200)"
  grep -m2 -A3 '^--- ' /tmp/try_seed_$p.log | cut -c1-300
done
git -C /repo checkout -- .
git -C /repo status --short | head -3
