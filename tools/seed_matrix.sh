#!/bin/bash
# runs every stored seed against the quick check of its own property; writes /verif/seeded/MATRIX.txt
# (applies each patch to /repo and restores it afterwards - do not edit /repo while this runs)
out=/verif/seeded/MATRIX.txt
: > $out.tmp
for d in /verif/seeded/*/; do
  id=$(basename $d); prop=$(python3 -c "import json;print(json.load(open('$d/meta.json'))['property'])")
  extra=""
  case $id in C08-*) extra="C01";; C10-*) extra="C11";; C16-*) extra="C01";; C01-*) extra="C02";; C14-*) extra="C10";; C18-*) extra="C10";; esac
  r=$(/verif/tools/try_seed.sh $d/patch.diff $prop $extra 2>&1 | grep "^== " | sed 's/; C[0-9][0-9] quick.*//' | tr '\n' ' ')
  echo "$id  $r" | tee -a $out.tmp
done
mv $out.tmp $out
