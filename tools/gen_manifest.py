#!/usr/bin/env python3
"""Regenerates /verif/MANIFEST.json from the table below (kept in one place so that the
manifest is always schema-valid and in step with what the harness implements)."""
import json, os, subprocess
V = os.path.dirname(os.path.dirname(os.path.abspath(__file__)))

MC = "model_checking"
# id -> (technique, level text, level note)
CHECKS = {
 "C01": ("bounded exhaustive input enumeration (seeds x all gap/trivia substitutions, all token soups <= n, all library sentences <= n) with a tiling invariant evaluated on every accepted tree",
         "Every input of a stated finite space is parsed through the real entry points and the lossless-tiling invariant (offset chain, char boundaries, line numbers, get_str of every node) is evaluated on every accepted tree; no sampling.",
         "Trusted: the harness, preprocess_str as provider of the reference text, the vendored seeds for reach. Bounds in evidence.parts."),

 "C12": ("bounded exhaustive enumeration: every accepted seed x 16 trivia forms x (all gaps | each single gap | `resetall before each description), 8 rejected probes x all ordered pairs of 20 leading forms; oracle = acceptance and whitespace-free skeleton equal to the original's",
         "Every (program, gap assignment) of the stated finite space is parsed by the real parser and compared with the original parse; no sampling.",
         "Trusted: the harness; the token/gap layout is derived from the accepted tree of the original; the blank ending an escaped identifier / bare library path is part of that token. Two known findings (form feed, memo eviction) are matched by re-execution signatures."),
 "C15": ("bounded exhaustive enumeration of sources (seeds, seeds cut after every token, all token soups <= n, library sentences) each parsed in strict and incomplete mode; invariant + differential oracle",
         "Every source of the stated finite space is parsed in both modes; incomplete must not return Error::Parse, must tile a prefix, must equal strict where strict accepts, and must be insensitive to 4 appended junk suffixes.",
         "Trusted: the harness; junk suffixes (\\x01, ), ], \\x7f) are assumed unable to start or complete a description."),
 "C16": ("exhaustive per-node exploration of every accepted tree of the enumerated sources: event discipline, sub-iteration vs slice of the root pre-order, unwrap_node!/unwrap_locate! vs first match, get_str_trim vs recomputed span, and an independent pre-order taken from derive(Debug)",
         "All trees of the stated finite input space, and in each tree all nodes, are checked against an independently computed pre-order; no sampling (quick tier strides nodes of trees > 400 nodes).",
         "Trusted: the harness; std's derive(Debug) field order as independent reference for struct nodes and leaves; node identity compared as (kind, leaf position)."),

 "C02": ("bounded exhaustive enumeration of a reference Annex A grammar kept as data (models/sv_grammar.txt): for every rule every combination of its own choices in its shortest context, every ordered pair of element alternatives of every repetition, x layouts x adversarial identifier pools; oracle = strict acceptance + one node of the stated kind per fact + one leaf per identifier/keyword token",
         "All sentences of the stated finite space are parsed by the real parser and every fact the generator attached to them is checked in the tree; model (grammar) behaviours are all replayed against the implementation, not only counterexamples.",
         "Trusted: the reference grammar and its facts (written from Annex A, independent of the parser), SyntaxTree::get_origin to return to source coordinates, keyword list typed from Annex B. Facts admit several kinds where Annex A itself is ambiguous. Three known findings carry re-inspection signatures."),
 "C08": ("bounded exhaustive enumeration of adversarial inputs (all token soups <= n over 32/38 tokens, all character strings <= n over 12 characters, seeds cut after / without every token, directive seeds cut at every byte, file-level faults at 3 nesting levels) through every public entry point and every tree accessor under catch_unwind",
         "Every input of the stated finite space goes through preprocess_str (both strip settings), parse_sv_str / parse_lib_str (strict, incomplete, ignore_include), and every Ok tree is iterated, rendered and converted node by node; file faults are produced in real directories.",
         "Trusted: the harness. Aborts (stack overflow) kill the explorer; the driver then isolates the in-flight cases one per process. Permission errors cannot be produced as root."),
 "C14": ("bounded exhaustive fault enumeration: every accepted seed (pp fixed points) x every token boundary x 3 bad bytes, x every single bracket / block keyword deleted, the same through `include, and 8 pp programs x every line start x 9 lexical faults",
         "Every (program, position, fault) of the stated finite space is executed; rejection, error variant, file and position are checked on each.",
         "Trusted: the harness; balancedness of brackets and block keywords in every sentence of the language; the end of an escaped identifier is not a boundary."),
}
PENDING = {}

def main():
    props = [json.loads(l) for l in open(os.path.join(V, "properties.jsonl"))]
    ids = [p["id"] for p in props]
    hooks_commit = subprocess.run(["git", "-C", "/repo", "log", "--format=%H", "--grep=^verif hooks"], capture_output=True, text=True).stdout.split()
    m = {
        "version": 1,
        "setup_cmd": "cd /verif/harness && CARGO_NET_OFFLINE=true cargo build --release --offline",
        "hooks": {
            "guard": "cargo feature `verif` of crate sv-parser-parser",
            "enable": "the harness crate /verif/harness depends on /repo/sv-parser-parser by path with features=[\"verif\"]; every ./check run does `cargo build --release --offline` there first, which rebuilds whatever changed under /repo",
            "baseline_off_cmd": "cd /repo && cargo test --workspace --no-fail-fast --offline",
            "source_commits": hooks_commit,
            "add_only": True,
        },
        "engines": [
            {"name": "svcheck", "path": "/verif/harness", "serves_properties": sorted(CHECKS.keys()),
             "kind_free_text": "Rust explorer linked against the working tree of /repo: indexable finite spaces (core/space.rs) exhausted by 16 workers (core/run.rs), reference models in models/, per-property oracles in props/"},
        ],
        "checks": [],
        "not_applicable": [],
        "notes": "exit 0 = held on everything explored (KNOWN-FINDING lines for entries of known_findings.txt), exit 1 = VIOLATION line(s), exit 2 = machinery problem. See DESIGN.md.",
    }
    for i in ids:
        if i in CHECKS:
            tech, text, note = CHECKS[i]
            m["checks"].append({
                "property_id": i,
                "quick_cmd": "./check %s quick" % i,
                "thorough_cmd": "./check %s thorough" % i,
                "evidence_file": "/verif/evidence/%s.json" % i,
                "replay_cmd_template": "./check replay {path}",
                "engine": "svcheck",
                "level_claimed": {"category": MC, "text": text, "design_ref": "DESIGN.md section 6/%s" % i},
                "level_note": note,
                "technique": tech,
            })
        else:
            m["not_applicable"].append({"property_id": i, "reason": PENDING.get(i, "check designed (DESIGN.md section 6) but not built yet; not claimed until it is")})
    json.dump(m, open(os.path.join(V, "MANIFEST.json"), "w"), indent=1)
    print("claimed:", len(m["checks"]), "not claimed:", len(m["not_applicable"]))

main()
