#!/usr/bin/env python3
"""Regenerates /verif/MANIFEST.json from the table below (kept in one place so that the
manifest is always schema-valid and in step with what the harness implements)."""
import json, os, subprocess
V = os.path.dirname(os.path.dirname(os.path.abspath(__file__)))

MC = "model_checking"
# id -> (technique, level text, level note)
CHECKS = {
 "C01": ("bounded exhaustive input enumeration (seeds x all gap/trivia substitutions, all token soups <= n, every sentence of the reference grammar incl. all literal forms, library-map soup <= n, raw parser seam) with a tiling invariant evaluated on every accepted tree",
         "Every input of a stated finite space is parsed through the real entry points and the lossless-tiling invariant (offset chain, char boundaries, line numbers, get_str of every node) is evaluated on every accepted tree; no sampling.",
         "Trusted: the harness, preprocess_str as provider of the reference text, the vendored seeds for reach. Bounds in evidence.parts."),

 "C12": ("bounded exhaustive enumeration: every accepted seed or default grammar sentence x 17 trivia forms x (all gaps | each single gap), `resetall before each description followed by each trivia form, sources whose descriptions share macros x `resetall placements, 8 rejected probes x all ordered pairs of 20 leading forms, all comment shapes over small alphabets; oracle = acceptance and whitespace-free skeleton equal to the original's",
         "Every (program, gap assignment) of the stated finite space is parsed by the real parser and compared with the original parse; no sampling.",
         "Trusted: the harness; the token/gap layout is derived from the accepted tree of the original; the blank ending an escaped identifier / bare library path is part of that token. Two known findings (form feed, memo eviction) are matched by re-execution signatures."),
 "C15": ("bounded exhaustive enumeration of sources (seeds, seeds cut after every token, all token soups <= n, keyword-region programs, grammar sentences behind leading trivia, library sentences) each parsed in strict and incomplete mode, junk appended and glued, cut seeds through file / string / two-step routes x ignore_include; invariant + differential oracle",
         "Every source of the stated finite space is parsed in both modes; incomplete must not return Error::Parse, must tile a prefix, must equal strict where strict accepts, and must be insensitive to 4 appended junk suffixes.",
         "Trusted: the harness; junk suffixes (\\x01, ), ], \\x7f) are assumed unable to start or complete a description."),
 "C16": ("exhaustive per-node exploration of every accepted tree of the enumerated sources: event discipline, sub-iteration vs slice of the root pre-order, views of iterators advanced by k steps and of several roots, unwrap_node!/unwrap_locate! vs first match, get_str / get_str_trim vs recomputed span, and an independent pre-order taken from derive(Debug)",
         "All trees of the stated finite input space, and in each tree all nodes, are checked against an independently computed pre-order; no sampling (quick tier strides nodes of trees > 400 nodes).",
         "Trusted: the harness; std's derive(Debug) field order as independent reference for struct nodes and leaves; node identity compared as (kind, leaf position)."),

 "C02": ("bounded exhaustive enumeration of a reference Annex A grammar kept as data (models/sv_grammar.txt, ~300 rules): for every rule every combination of its own choices in its shortest context, every ordered pair of element alternatives of every repetition, every identifier slot x every reserved word x suffixes, x layouts x adversarial identifier pools; oracle = strict acceptance + one node of the stated kind per fact + one leaf per identifier/keyword token",
         "All sentences of the stated finite space are parsed by the real parser and every fact the generator attached to them is checked in the tree; model (grammar) behaviours are all replayed against the implementation, not only counterexamples.",
         "Trusted: the reference grammar and its facts (written from Annex A, independent of the parser), SyntaxTree::get_origin to return to source coordinates, keyword list typed from Annex B. Facts admit several kinds where Annex A itself is ambiguous. Three known findings carry re-inspection signatures."),
 "C08": ("bounded exhaustive enumeration of adversarial inputs (all token soups <= n over 32/38 tokens, all character strings <= n over 12 characters, macro-body and include-name soups with non-ASCII pieces, intact / cut / token-deleted seeds, grammar sentences, directive seeds cut at every byte, file-level faults at 3 nesting levels) through every public entry point and every tree accessor under catch_unwind",
         "Every input of the stated finite space goes through preprocess_str (both strip settings), parse_sv_str / parse_lib_str (strict, incomplete, ignore_include), and every Ok tree is iterated, rendered and converted node by node; file faults are produced in real directories.",
         "Trusted: the harness. Aborts (stack overflow) kill the explorer; the driver then isolates the in-flight cases one per process. Permission errors cannot be produced as root."),
 "C14": ("bounded exhaustive fault enumeration: every accepted seed / default grammar sentence / design element inside a keyword region of each of the 8 versions (pp fixed points) x every token boundary x 5 bad bytes, x every single bracket / block keyword deleted, mutants through the three strict routes x ignore_include, the same through `include, and 8 pp programs x every line start x 9 lexical faults",
         "Every (program, position, fault) of the stated finite space is executed; rejection, error variant, file and position are checked on each.",
         "Trusted: the harness; balancedness of brackets and block keywords in every sentence of the language; the end of an escaped identifier is not a boundary."),

 "C03": ("bounded exhaustive enumeration of structured preprocessor programs (origin profile: all sequences <= n of a 29-item alphabet; long programs; redefinitions; macros whose text holds directives; plus the C04/C05 profiles), each interpreted by a reference preprocessor that yields the provenance of every output token; every output byte is probed with origin()",
         "All programs of the stated finite space are run on the real preprocessor; every model prediction (token sequence with provenance) is replayed against the implementation, and the origin of every byte is compared with the model's provenance.",
         "Trusted: reference preprocessor models/ppref.rs and lexer models/lexref.rs; white space is only required to map to an equal byte of the same file with advancing offsets. Findings matched by emulation switches of the model."),
 "C04": ("bounded exhaustive enumeration of conditional-compilation programs (chains over {A, B, __LINE__} with 0-2 `elsif, optional `else, nesting, branch bodies with define/undef/undefined usage/missing include/comments; macros whose text or actual argument holds directives; x 5 initial tables x layouts) against a reference preprocessor",
         "Every program of the stated finite space is interpreted by the model and run on the implementation; token sequences and errors are compared on all of them.",
         "Trusted: models/ppref.rs (IEEE 22.6 first-true-branch semantics), models/lexref.rs. The `elsif/predefined finding is matched by re-running the model with exactly that defect."),
 "C05": ("bounded exhaustive enumeration of define/usage programs (6 formal lists x all bodies <= n over a 15-token alphabet x 10 actual-argument forms x 3 definitions of a nested macro, 30 hand-picked shapes, every ordered pair of definitions of one name, macros whose text holds directives) against a reference preprocessor implementing IEEE 22.5.1",
         "Every program of the stated finite space is interpreted by the model and run on the implementation; token sequences and error variants with payloads are compared on all of them.",
         "Trusted: models/ppref.rs (substitution, paste, `\", nested expansion at point of use, limit 64), models/lexref.rs. The model abstains where an expansion does not lex; surplus actuals are outside the statement."),
 "C06": ("exhaustive enumeration of all strings <= n over a 12-character alphabet, all sequences <= n of 16 lexical pieces and of 12 directive pieces, long texts, classified by a reference lexer; identity + per-byte origin identity on directive-free well-formed ones; every successful output (also of all token soups with directives) fed back once",
         "The finite spaces are enumerated completely; the reference lexer's verdict is replayed against the implementation on every member.",
         "Trusted: models/lexref.rs. Three known findings (duplicated trivia after literals, directive after literal, glued expansion) are matched by exact emulation / input shape."),
 "C11": ("bounded exhaustive enumeration: returned define table vs the reference preprocessor's table on all C04/C05 programs, redefinition pairs, directive-holding macros and the C10 include layouts, and all ordered pairs of a sub-profile: preprocess(f2, defines = preprocess(f1).defines) against preprocess(f1 ++ f2)",
         "All programs and all ordered pairs of the stated finite spaces are executed; tables, texts and errors are compared on each.",
         "Trusted: models/ppref.rs for part (a); part (b) is a differential relation on the implementation alone. SV_COV_* constants left aside, bodies compared trimmed."),
 "C18": ("bounded exhaustive enumeration: every C04/C05 program, directive-holding macros and every sequence <= n of 16 pieces in which comments are the only separators, stand inside actual arguments / restored parentheses or end the text; each run with strip_comments off and on, differential oracle on tokens, table and error plus absence of comments",
         "All inputs of the stated finite spaces are run twice and compared.",
         "Trusted: models/lexref.rs to tokenise outputs. Three known findings matched by signatures (fused tokens, comment attached to a literal, directive after a literal)."),

 "C07": ("explicit-state exploration of call histories on the real library: every sequence <= n of a 33-call alphabet executed on a fresh OS thread with the last result compared to the fresh-thread result, plus a breadth-first search over hooked thread-state fingerprints (memo occupancy, directive depth, keyword-version stack) with every call checked from every reachable state",
         "All operation sequences up to the stated depth are executed on the real entry points (forced memo-key collisions through one reused buffer); the BFS reports states, transitions and the depth at which the frontier emptied.",
         "Trusted: the harness; the hook thread_state() as the complete mutable parser state apart from nom-recursive's monotone id table; state merging only in the BFS part."),
 "C09": ("exhaustive enumeration of recursion depths and cycle lengths (macro chains, function-like macro chains, include chains of depth 1..70, chains behind sibling usages, cycles of length 1..4, macro-expands-to-include cycles, grids of include depth x macro depth), with strip_comments off and on, one process per case with the default 8 MiB stack and a 20 s cap",
         "Every depth / cycle of the stated finite space is executed on real files through preprocess(); result, number of Include wrappers and survival of the process are checked.",
         "Trusted: the harness; limit 64 as the property states. A process that dies is the violation."),
 "C10": ("bounded exhaustive enumeration over real directory layouts: every subset of {cwd, inc1, inc2} holding the file x 5 include-path lists x 8 contents x 3 directive styles x once/twice x ignore_include x relative/absolute x 3 file endings x layouts, through preprocess (strip_comments off / on) and preprocess_str, against the reference preprocessor with the property's search rule; plus 27 same-line forms, 7 forms of the file-naming macro and `include inside expansions",
         "Every configuration of the stated finite space is laid out on disk and run through preprocess() and preprocess_str(); tokens, define table, origins and errors are compared with the model on each.",
         "Trusted: models/ppref.rs incl. the search rule as the property states it; process-wide chdir into a scratch directory with per-thread file names."),
 "C20": ("exhaustive enumeration of 52 inputs x ignore_include x allow_incomplete x strip_comments x 3 define tables x 4 include-path lists x top file in the working directory / a subdirectory, on real files, plus unreadable top files; differential oracle between preprocess/preprocess_str and between the routes to a tree (text, origin of every byte/leaf, tables with origins, errors)",
         "All configurations of the stated finite space are executed through every entry point and compared pairwise.",
         "Trusted: the harness. The copies of the included file differ per include path so that dropped or reordered arguments are observable."),

 "C13": ("bounded exhaustive enumeration: 8 version specifiers x 258 words x 7 identifier positions, the default set, all keyword-region programs <= n (nested, sequential, unclosed, with `define segments), leading-directive pairs, `define of every directive name; plus the invariant 'no SimpleIdentifier is reserved in the set in force' recomputed from the directive nodes on every tree of the corpus and the reference grammar",
         "Every (version, word, position) and every region program of the stated finite space is parsed; acceptance and the identifier leaves are compared with independently typed keyword tables.",
         "Trusted: models/keywords/*.txt (typed from Annex B / Table 22-x, not read from keywords.rs). Ten known findings, each a specific (position, word) pair."),
 "C17": ("bounded exhaustive sweep: inputs (seeds, default sentence of every grammar rule, keyword-region programs also opened inside a construct and in the white space behind a word of a declaration, left-recursive list shapes of 1..8 elements, ordered pairs of raw entry-point calls on one buffer, kept directives next to comments in incomplete mode) x memo policies (FIFO capacities incl. the shipped one, periodic flush, forced misses) chosen through the verif hook; result compared with the unbounded-table run; hook counters prove that eviction happened",
         "Every (input, policy) pair of the stated finite space is executed on the real parser with the real nom-packrat table behind a counting wrapper.",
         "Trusted: the verif wrapper delegates to nom_packrat::PackratStorage. Divergent pairs are attributed to the one known finding only if a child-process re-run in a diagnostic mode (flag-carrying spans bypass the table) reproduces the reference result."),
 "C19": ("stateless model checking of the real code under a token-passing scheduler over real OS threads: all schedules with <= 1 (quick) / 2-3 (thorough) preemptions at the hook points of parser and preprocessor for 2- and 3-thread combinations of 14 colliding thread bodies; every execution runs to completion and is compared with the solo results; failing schedules are replayed twice",
         "All interleavings within the preemption bound at hook-point granularity are enumerated depth-first; schedules, points and the number of schedules with an open interference window are reported.",
         "Trusted: hook points placed at every read/write of the thread-local parser state (init, white_space, is_keyword, begin/end_directive, begin/end_keywords, clear_*, memo get/insert); interference is assumed observable at that granularity; a free-running 16-thread pass is sampling only."),
}
PENDING = {}

def main():
    props = [json.loads(l) for l in open(os.path.join(V, "properties.jsonl"))]
    ids = [p["id"] for p in props]
    hooks_commit = subprocess.run(["git", "-C", "/repo", "log", "--format=%H", "--grep=^verif hooks"], capture_output=True, text=True).stdout.split()
    m = {
        "version": 1,
        "setup_cmd": "cd /verif/harness && CARGO_NET_OFFLINE=true cargo build --release --offline",
        "hooks": {
            "guard": "cargo feature `verif` of crates sv-parser-parser and sv-parser-pp (the latter only forwards to the former and adds scheduling points)",
            "enable": "the harness crate /verif/harness depends on /repo/sv-parser-parser and /repo/sv-parser-pp by path with features=[\"verif\"]; every ./check run does `cargo build --release --offline` there first, which rebuilds whatever changed under /repo",
            "baseline_off_cmd": "cd /repo && cargo test --workspace --no-fail-fast --offline",
            "source_commits": hooks_commit,
            "add_only": True,
        },
        "engines": [
            {"name": "svcheck", "path": "/verif/harness", "serves_properties": sorted(CHECKS.keys()),
             "kind_free_text": "Rust explorer linked against the working tree of /repo: indexable finite spaces (core/space.rs) exhausted by 16 workers (core/run.rs), reference models in models/, per-property oracles in props/"},
        ],
        "checks": [],
        "not_applicable": [],
        "notes": "exit 0 = held on everything explored (KNOWN-FINDING lines for entries of known_findings.txt), exit 1 = VIOLATION line(s), exit 2 = machinery problem. See DESIGN.md.",
    }
    for i in ids:
        if i in CHECKS:
            tech, text, note = CHECKS[i]
            m["checks"].append({
                "property_id": i,
                "quick_cmd": "./check %s quick" % i,
                "thorough_cmd": "./check %s thorough" % i,
                "evidence_file": "/verif/evidence/%s.json" % i,
                "replay_cmd_template": "./check replay {path}",
                "engine": "svcheck",
                "level_claimed": {"category": MC, "text": text, "design_ref": "DESIGN.md section 6/%s" % i},
                "level_note": note,
                "technique": tech,
            })
        else:
            m["not_applicable"].append({"property_id": i, "reason": PENDING.get(i, "check designed (DESIGN.md section 6) but not built yet; not claimed until it is")})
    json.dump(m, open(os.path.join(V, "MANIFEST.json"), "w"), indent=1)
    print("claimed:", len(m["checks"]), "not claimed:", len(m["not_applicable"]))

main()
