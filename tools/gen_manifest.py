#!/usr/bin/env python3
"""Regenerates /verif/MANIFEST.json from the table below (kept in one place so that the
manifest is always schema-valid and in step with what the harness implements)."""
import json, os, subprocess
V = os.path.dirname(os.path.dirname(os.path.abspath(__file__)))

MC = "model_checking"
# id -> (technique, level text, level note)
CHECKS = {
 "C01": ("bounded exhaustive input enumeration (seeds x all gap/trivia substitutions, all token soups <= n, all library sentences <= n) with a tiling invariant evaluated on every accepted tree",
         "Every input of a stated finite space is parsed through the real entry points and the lossless-tiling invariant (offset chain, char boundaries, line numbers, get_str of every node) is evaluated on every accepted tree; no sampling.",
         "Trusted: the harness, preprocess_str as provider of the reference text, the vendored seeds for reach. Bounds in evidence.parts."),
}
PENDING = {}

def main():
    props = [json.loads(l) for l in open(os.path.join(V, "properties.jsonl"))]
    ids = [p["id"] for p in props]
    hooks_commit = subprocess.run(["git", "-C", "/repo", "log", "--format=%H", "--grep=^verif hooks"], capture_output=True, text=True).stdout.split()
    m = {
        "version": 1,
        "setup_cmd": "cd /verif/harness && CARGO_NET_OFFLINE=true cargo build --release --offline",
        "hooks": {
            "guard": "cargo feature `verif` of crate sv-parser-parser",
            "enable": "the harness crate /verif/harness depends on /repo/sv-parser-parser by path with features=[\"verif\"]; every ./check run does `cargo build --release --offline` there first, which rebuilds whatever changed under /repo",
            "baseline_off_cmd": "cd /repo && cargo test --workspace --no-fail-fast --offline",
            "source_commits": hooks_commit,
            "add_only": True,
        },
        "engines": [
            {"name": "svcheck", "path": "/verif/harness", "serves_properties": sorted(CHECKS.keys()),
             "kind_free_text": "Rust explorer linked against the working tree of /repo: indexable finite spaces (core/space.rs) exhausted by 16 workers (core/run.rs), reference models in models/, per-property oracles in props/"},
        ],
        "checks": [],
        "not_applicable": [],
        "notes": "exit 0 = held on everything explored (KNOWN-FINDING lines for entries of known_findings.txt), exit 1 = VIOLATION line(s), exit 2 = machinery problem. See DESIGN.md.",
    }
    for i in ids:
        if i in CHECKS:
            tech, text, note = CHECKS[i]
            m["checks"].append({
                "property_id": i,
                "quick_cmd": "./check %s quick" % i,
                "thorough_cmd": "./check %s thorough" % i,
                "evidence_file": "/verif/evidence/%s.json" % i,
                "replay_cmd_template": "./check replay {path}",
                "engine": "svcheck",
                "level_claimed": {"category": MC, "text": text, "design_ref": "DESIGN.md section 6/%s" % i},
                "level_note": note,
                "technique": tech,
            })
        else:
            m["not_applicable"].append({"property_id": i, "reason": PENDING.get(i, "check designed (DESIGN.md section 6) but not built yet; not claimed until it is")})
    json.dump(m, open(os.path.join(V, "MANIFEST.json"), "w"), indent=1)
    print("claimed:", len(m["checks"]), "not claimed:", len(m["not_applicable"]))

main()
