#!/usr/bin/env python3
import sys,re,collections
prop=sys.argv[1]
seen=collections.OrderedDict()
for l in open('/verif/.work/%s/violations.txt'%prop, newline='\n'):
    part,idx,d=l.rstrip('\n').split('\t',2)
    d=re.sub(r'^\[sig [^\]]*\] ','',d)
    m=re.match(r'(\[[^\]]*\]*\]?) (.*?) ⏎ source: (.*)',d)
    if not m:
        key=d[:80]; src=''
    else:
        msg=m.group(2); key=m.group(1)+' '+re.sub(r'"[^"]*"','""',msg)[:70]; src=m.group(3)
    if key not in seen: seen[key]=[0,part,idx,d]
    seen[key][0]+=1
for k,(n,part,idx,d) in sorted(seen.items(), key=lambda kv:-kv[1][0])[:int(sys.argv[2]) if len(sys.argv)>2 else 40]:
    print(n,part,idx); print('   ',d[:900].replace(' ⏎ ','\n    ')); print()
