#!/usr/bin/env python3
"""One-off vendoring tool: extracts the Ok(..) whole-program snippets of
sv-parser-parser/src/tests.rs into /verif/corpus/seeds.jsonl.  The output is committed;
checks never run this script."""
import re, json, sys
src = open('/repo/sv-parser-parser/src/tests.rs').read()
i = 0
out = []
counts = {}
pat = re.compile(r'\btest!\(\s*')
def parse_str(s, j):
    # returns (value, end) for a Rust string literal starting at s[j]
    if s.startswith('r', j):
        m = re.match(r'r(#*)"', s[j:])
        hashes = m.group(1)
        start = j + len(m.group(0))
        endtok = '"' + hashes
        e = s.index(endtok, start)
        return s[start:e], e + len(endtok)
    assert s[j] == '"', s[j:j+30]
    k = j + 1
    val = []
    while s[k] != '"':
        if s[k] == '\\':
            c = s[k+1]
            if c == 'n': val.append('\n'); k += 2
            elif c == 't': val.append('\t'); k += 2
            elif c == 'r': val.append('\r'); k += 2
            elif c == '\\': val.append('\\'); k += 2
            elif c == '"': val.append('"'); k += 2
            elif c == '0': val.append('\0'); k += 2
            elif c == '\n':
                k += 2
                while s[k] in ' \t\n': k += 1
            else:
                raise Exception('escape ' + c)
        else:
            val.append(s[k]); k += 1
    return ''.join(val), k + 1
for m in pat.finditer(src):
    j = m.end()
    # parser expression up to the first top-level comma
    depth = 0; k = j
    while True:
        c = src[k]
        if c in '([': depth += 1
        elif c in ')]': depth -= 1
        elif c == ',' and depth == 0: break
        k += 1
    parser = src[j:k].strip()
    k += 1
    while src[k] in ' \t\n': k += 1
    if not (src[k] == '"' or src[k] == 'r'):
        continue
    try:
        text, e = parse_str(src, k)
    except Exception as ex:
        print('skip', parser, ex, file=sys.stderr); continue
    rest = src[e:e+40]
    ok = re.match(r'\s*,\s*Ok', rest) is not None
    counts[(parser, ok)] = counts.get((parser, ok), 0) + 1
    if not ok: continue
    if parser == 'source_text':
        prog = text
    elif parser == 'module_declaration':
        prog = text
    elif parser in ('module_item', 'many1(module_item)'):
        prog = 'module w__;\n' + text + '\nendmodule\n'
    elif parser == 'library_text':
        out.append({'kind': 'lib', 'from': parser, 'text': text}); continue
    else:
        continue
    out.append({'kind': 'sv', 'from': parser, 'text': prog})
seen = set(); res = []
for o in out:
    key = (o['kind'], o['text'])
    if key in seen: continue
    seen.add(key); res.append(o)
with open('/verif/corpus/seeds.jsonl', 'w') as f:
    for n, o in enumerate(res):
        o['id'] = n
        f.write(json.dumps(o) + '\n')
print(len(out), len(res), file=sys.stderr)
for k, v in sorted(counts.items(), key=lambda kv: -kv[1])[:25]: print(k, v, file=sys.stderr)
