#!/bin/bash
# usage: tools/confirm_seed.sh <worktree> <seed-id> <property> "<what it needs to manifest>"
# Confirms in the scratch worktree: suite passes with the patch, demo fails with it, demo passes without it;
# then stores the seed under /verif/seeded/<seed-id>/.
set -u
wt="$1"; id="$2"; prop="$3"; needs="$4"
cd "$wt" || exit 2
demo_rel=$(git status --porcelain | grep -E '^\?\? .*seed_demo' | head -1 | awk '{print $2}')
[ -z "$demo_rel" ] && demo_rel="sv-parser/tests/seed_demo.rs"
[ -f "$demo_rel" ] || { echo "no demo at $demo_rel"; exit 2; }
export CARGO_NET_OFFLINE=true
git diff > /tmp/confirm_$id.diff
cmp -s <(git diff) SEED/patch.diff || echo "note: working diff differs from SEED/patch.diff (using SEED/patch.diff)"
mv "$demo_rel" /tmp/confirm_$id.demo.rs
suite=$(cargo test --workspace --offline --no-fail-fast 2>&1 | grep -E "^test result" | awk '{p+=$4; f+=$6} END {print p" passed "f" failed"}')
mv /tmp/confirm_$id.demo.rs "$demo_rel"
cargo test --offline -p sv-parser --test seed_demo > /tmp/confirm_$id.with.log 2>&1; with_rc=$?
git apply -R SEED/patch.diff || { echo "cannot reverse patch"; exit 2; }
cargo test --offline -p sv-parser --test seed_demo > /tmp/confirm_$id.without.log 2>&1; without_rc=$?
git apply SEED/patch.diff
echo "suite with patch: $suite ; demo with patch rc=$with_rc ; demo without patch rc=$without_rc"
if [ "$suite" = "120 passed 0 failed" ] && [ $with_rc -ne 0 ] && [ $without_rc -eq 0 ]; then
  d=/verif/seeded/$id; mkdir -p $d
  cp SEED/patch.diff $d/patch.diff; cp "$demo_rel" $d/demo.rs; cp SEED/README.md $d/agent_README.md 2>/dev/null
  python3 - "$d" "$prop" "$needs" "$demo_rel" "$suite" <<'PY'
import json,sys
d,prop,needs,demo,suite=sys.argv[1:6]
json.dump({"property":prop,"needs_to_manifest":needs,"demo_path_in_repo":demo,
 "confirmed":{"repo_suite_with_patch":suite,"demo_with_patch":"FAIL","demo_without_patch":"PASS",
 "how":"tools/confirm_seed.sh in the sub-agent's scratch worktree: cargo test --workspace --offline --no-fail-fast (demo moved aside); cargo test -p sv-parser --test seed_demo with the patch; same after git apply -R"},
 "origin":"independent sub-agent given only the property text and a scratch worktree"}, open(d+"/meta.json","w"), indent=1)
PY
  echo "CONFIRMED -> $d"
else
  echo "NOT CONFIRMED"; tail -5 /tmp/confirm_$id.with.log; tail -5 /tmp/confirm_$id.without.log
fi
