// Generates `try_locate(&RefNode) -> Result<Locate, ()>`: one arm per node type of the
// syntax-tree crate of the working tree, calling the derived `Locate::try_from(&T)`.
use std::io::Write;
use std::path::Path;

fn walk(d: &Path, names: &mut Vec<String>) {
    let mut entries: Vec<_> = std::fs::read_dir(d).unwrap().flatten().map(|e| e.path()).collect();
    entries.sort();
    for p in entries {
        if p.is_dir() {
            walk(&p, names);
        } else if p.extension().map(|x| x == "rs").unwrap_or(false) {
            let s = std::fs::read_to_string(&p).unwrap();
            let mut hit = false;
            for l in s.lines() {
                if hit {
                    if let Some(name) = l.split_whitespace().nth(2) {
                        let name = name.replace("<'a>", "");
                        let name: String = name.chars().take_while(|c| c.is_alphanumeric() || *c == '_').collect();
                        names.push(name);
                    }
                    hit = false;
                }
                let t = l.trim();
                if t.starts_with("#[derive") && t.contains("Node") {
                    hit = true;
                }
            }
        }
    }
}

fn main() {
    let src = Path::new("/repo/sv-parser-syntaxtree/src");
    println!("cargo:rerun-if-changed=/repo/sv-parser-syntaxtree/src");
    println!("cargo:rerun-if-changed=build.rs");
    let mut names = vec![];
    walk(src, &mut names);
    names.sort();
    names.dedup();
    let out = std::env::var("OUT_DIR").unwrap();
    let mut f = std::fs::File::create(Path::new(&out).join("try_locate.rs")).unwrap();
    writeln!(f, "pub fn try_locate(n: &sv_parser::RefNode) -> Result<sv_parser::Locate, ()> {{").unwrap();
    writeln!(f, "    use std::convert::TryFrom;\n    use sv_parser::{{Locate, RefNode}};\n    match n {{").unwrap();
    writeln!(f, "        RefNode::Locate(x) => Ok(**x),").unwrap();
    for n in &names {
        if n == "RefNode" || n == "AnyNode" {
            continue;
        }
        writeln!(f, "        RefNode::{}(x) => Locate::try_from(*x),", n).unwrap();
    }
    writeln!(f, "    }}\n}}").unwrap();
    writeln!(f, "pub const NODE_TYPES: usize = {};", names.len()).unwrap();
}
