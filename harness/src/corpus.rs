//! The vendored seed programs (/verif/corpus/seeds.jsonl): whole-program snippets taken
//! once from the repository's own tests.rs. They only provide *reach* into productions;
//! no check asserts that a seed is accepted.

use crate::core::run::verif_dir;
use serde::Deserialize;

#[derive(Deserialize, Clone, Debug)]
pub struct Seed {
    pub id: usize,
    pub kind: String,
    pub text: String,
}

impl Seed {
    pub fn is_lib(&self) -> bool {
        self.kind == "lib"
    }
}

pub fn load() -> Vec<Seed> {
    let p = verif_dir().join("corpus").join("seeds.jsonl");
    let s = std::fs::read_to_string(&p).unwrap_or_else(|e| panic!("cannot read {}: {}", p.display(), e));
    let mut v: Vec<Seed> = s.lines().filter(|l| !l.trim().is_empty()).map(|l| serde_json::from_str(l).expect("seed line")).collect();
    // a few hand-written library-map seeds: the repository's tests only have four
    let extra_lib = [
        "library l1 a.v;\n",
        "library l2 \"a.v\", b.v -incdir c, \"d\";\n",
        "include x.map;\n",
        "config cfg; design top; default liblist l1 l2; endconfig\n",
        "library l3 *.v;\ninclude y;\nconfig c2; design l1.top; instance top.a use l2.b; endconfig\n;\n",
        "/* c */ library l4 ./*.v; // t\n",
    ];
    for t in extra_lib {
        let id = v.len();
        v.push(Seed { id, kind: "lib".into(), text: t.to_string() });
    }
    v
}
