//! Token / gap layout of an accepted source, derived from its tree: every leaf outside a
//! WhiteSpace node is a token; what lies between two tokens is a gap. A gap is `plain`
//! when it consists of blanks, newlines and comments only (no compiler directive).

use super::tree::TreeIndex;
use sv_parser::{RefNode, WhiteSpace};

#[derive(Clone, Debug)]
pub struct Gap {
    pub start: usize,
    pub end: usize,
    pub plain: bool,
}

#[derive(Clone, Debug)]
pub struct Layout {
    pub toks: Vec<(usize, usize)>,
    /// gaps[0] precedes the first token, gaps[i + 1] follows token i
    pub gaps: Vec<Gap>,
    pub len: usize,
}

pub fn layout(ix: &TreeIndex, text_len: usize) -> Layout {
    let mut toks = vec![];
    let mut gaps = vec![Gap { start: 0, end: 0, plain: true }];
    for (l, id) in &ix.leaves {
        let n = &ix.nodes[*id];
        if n.in_ws {
            // find the outermost WhiteSpace ancestor to classify
            let mut j = *id;
            let mut top_ws = None;
            loop {
                if let RefNode::WhiteSpace(w) = &ix.nodes[j].node {
                    top_ws = Some(*w);
                }
                match ix.nodes[j].parent {
                    Some(p) => j = p,
                    None => break,
                }
            }
            let g = gaps.last_mut().unwrap();
            if g.start == g.end {
                g.start = l.offset;
            }
            g.end = l.offset + l.len;
            if let Some(WhiteSpace::CompilerDirective(_)) = top_ws {
                g.plain = false;
            }
        } else {
            toks.push((l.offset, l.offset + l.len));
            let e = l.offset + l.len;
            gaps.push(Gap { start: e, end: e, plain: true });
        }
    }
    // normalise empty gaps to sit at the right place
    for k in 0..gaps.len() {
        if gaps[k].start == gaps[k].end {
            let p = if k == 0 { 0 } else { toks[k - 1].1 };
            gaps[k].start = p;
            gaps[k].end = p;
        }
    }
    Layout { toks, gaps, len: text_len }
}

impl Layout {
    /// re-render `text`, replacing gap k by f(k) when that returns Some
    pub fn render(&self, text: &str, f: impl Fn(usize, &Gap) -> Option<String>) -> String {
        let mut out = String::with_capacity(text.len() + 16);
        for k in 0..self.gaps.len() {
            let g = &self.gaps[k];
            match f(k, g) {
                Some(s) => out.push_str(&s),
                None => out.push_str(&text[g.start..g.end]),
            }
            if k < self.toks.len() {
                let (b, e) = self.toks[k];
                out.push_str(&text[b..e]);
            }
        }
        // anything after the last gap (incomplete parses) is kept
        let last = self.gaps.last().map(|g| g.end).unwrap_or(0).max(self.toks.last().map(|t| t.1).unwrap_or(0));
        if last < text.len() {
            out.push_str(&text[last..]);
        }
        out
    }
}
