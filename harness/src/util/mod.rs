pub mod api;
pub mod tree;
pub mod layout;
