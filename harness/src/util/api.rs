//! Thin, panic-catching wrappers around the public API of sv-parser, and canonical
//! renderings of its results so that two results can be compared for equality.

use std::cell::RefCell;
use std::collections::HashMap;
use std::panic::{catch_unwind, AssertUnwindSafe};
use std::path::{Path, PathBuf};
use sv_parser::{Define, DefineText, Error, PreprocessedText, SyntaxTree};

pub type Defs = HashMap<String, Option<Define>>;

thread_local! {
    static LAST_PANIC: RefCell<String> = RefCell::new(String::new());
    static IN_GUARD: std::cell::Cell<u32> = std::cell::Cell::new(0);
}

/// Install a process-wide panic hook that records the message instead of printing it.
pub fn quiet_panics() {
    std::panic::set_hook(Box::new(|info| {
        let msg = if let Some(s) = info.payload().downcast_ref::<&str>() {
            s.to_string()
        } else if let Some(s) = info.payload().downcast_ref::<String>() {
            s.clone()
        } else {
            "<non-string panic>".to_string()
        };
        let loc = info.location().map(|l| format!("{}:{}", l.file(), l.line())).unwrap_or_default();
        let _ = LAST_PANIC.try_with(|p| *p.borrow_mut() = format!("{} @ {}", msg, loc));
        // a panic outside a guarded library call is a bug of the harness itself: say so
        if IN_GUARD.try_with(|g| g.get()).unwrap_or(0) == 0 {
            eprintln!("svcheck: harness panic: {} @ {}", msg, loc);
        }
    }));
}

/// Run `f`, turning a panic into Err(message @ location).
pub fn guarded<T>(f: impl FnOnce() -> T) -> Result<T, String> {
    IN_GUARD.with(|g| g.set(g.get() + 1));
    let r = catch_unwind(AssertUnwindSafe(f));
    IN_GUARD.with(|g| g.set(g.get() - 1));
    match r {
        Ok(v) => Ok(v),
        Err(_) => Err(LAST_PANIC.with(|p| p.borrow().clone())),
    }
}

pub fn err_sig(e: &Error) -> String {
    match e {
        Error::Io(x) => format!("Io({:?})", x.kind()),
        Error::File { source, path } => format!("File({:?},{:?})", path, source.kind()),
        Error::ReadUtf8(p) => format!("ReadUtf8({:?})", p),
        Error::Include { source } => format!("Include({})", err_sig(source)),
        Error::Parse(x) => format!("Parse({:?})", x),
        Error::Preprocess(x) => format!("Preprocess({:?})", x),
        Error::DefineArgNotFound(x) => format!("DefineArgNotFound({:?})", x),
        Error::DefineNotFound(x) => format!("DefineNotFound({:?})", x),
        Error::DefineNoArgs(x) => format!("DefineNoArgs({:?})", x),
        Error::ExceedRecursiveLimit => "ExceedRecursiveLimit".to_string(),
        Error::IncludeLine => "IncludeLine".to_string(),
    }
}

/// innermost error and the number of Include wrappers around it
pub fn unwrap_include(e: &Error) -> (usize, &Error) {
    let mut n = 0;
    let mut e = e;
    while let Error::Include { source } = e {
        n += 1;
        e = source;
    }
    (n, e)
}

pub fn is_cov(name: &str) -> bool {
    name.starts_with("SV_COV_")
}

/// sorted, canonical rendering of a define table; `origin` decides whether source
/// positions take part
pub fn defs_sig(d: &Defs, origin: bool, with_cov: bool) -> Vec<String> {
    let mut v: Vec<String> = d
        .iter()
        .filter(|(k, _)| with_cov || !is_cov(k))
        .map(|(k, v)| match v {
            None => format!("{} = <none>", k),
            Some(def) => {
                let args: Vec<String> = def
                    .arguments
                    .iter()
                    .map(|(a, d)| match d {
                        Some(d) => format!("{}={:?}", a, d),
                        None => a.clone(),
                    })
                    .collect();
                let text = match &def.text {
                    None => "<nobody>".to_string(),
                    Some(t) => {
                        if origin {
                            format!("{:?}@{:?}", t.text, t.origin.as_ref().map(|(p, r)| (p.clone(), r.begin, r.end)))
                        } else {
                            format!("{:?}", t.text)
                        }
                    }
                };
                format!("{} [{}] ({}) {}", k, def.identifier, args.join(","), text)
            }
        })
        .collect();
    v.sort();
    v
}

pub fn mk_defs(list: &[(&str, Option<&str>)]) -> Defs {
    let mut d = Defs::new();
    for (k, v) in list {
        match v {
            None => {
                d.insert(k.to_string(), None);
            }
            Some(body) => {
                d.insert(
                    k.to_string(),
                    Some(Define::new(k.to_string(), vec![], Some(DefineText::new(body.to_string(), None)))),
                );
            }
        }
    }
    d
}

pub type PpResult = Result<Result<(PreprocessedText, Defs), Error>, String>;
pub type ParseResult = Result<Result<(SyntaxTree, Defs), Error>, String>;

pub fn pp_str(s: &str, path: &Path, defs: &Defs, incs: &[PathBuf], ignore_include: bool, strip: bool) -> PpResult {
    guarded(|| sv_parser::preprocess_str(s, path, defs, incs, ignore_include, strip, 0, 0))
}

pub fn pp_file(path: &Path, defs: &Defs, incs: &[PathBuf], strip: bool, ignore_include: bool) -> PpResult {
    guarded(|| sv_parser::preprocess(path, defs, incs, strip, ignore_include))
}

pub fn parse_sv_str(s: &str, path: &Path, defs: &Defs, incs: &[PathBuf], ignore_include: bool, incomplete: bool) -> ParseResult {
    guarded(|| sv_parser::parse_sv_str(s, path, defs, incs, ignore_include, incomplete))
}

pub fn parse_lib_str(s: &str, path: &Path, defs: &Defs, incs: &[PathBuf], ignore_include: bool, incomplete: bool) -> ParseResult {
    guarded(|| sv_parser::parse_lib_str(s, path, defs, incs, ignore_include, incomplete))
}

pub fn parse_sv_file(path: &Path, defs: &Defs, incs: &[PathBuf], ignore_include: bool, incomplete: bool) -> ParseResult {
    guarded(|| sv_parser::parse_sv(path, defs, incs, ignore_include, incomplete))
}

pub fn parse_lib_file(path: &Path, defs: &Defs, incs: &[PathBuf], ignore_include: bool, incomplete: bool) -> ParseResult {
    guarded(|| sv_parser::parse_lib(path, defs, incs, ignore_include, incomplete))
}

/// simple parse with no defines / include paths
pub fn parse_simple(s: &str, lib: bool, incomplete: bool) -> ParseResult {
    let d = Defs::new();
    let incs: Vec<PathBuf> = vec![];
    if lib {
        parse_lib_str(s, Path::new("top.sv"), &d, &incs, false, incomplete)
    } else {
        parse_sv_str(s, Path::new("top.sv"), &d, &incs, false, incomplete)
    }
}

/// origin(pos) for every pos, rendered
pub fn origins_sig(pt: &PreprocessedText) -> Vec<Option<(PathBuf, usize)>> {
    (0..pt.text().len()).map(|i| pt.origin(i).map(|(p, o)| (p.clone(), o))).collect()
}

pub fn fnv(s: &[u8]) -> u64 {
    let mut h: u64 = 0xcbf29ce484222325;
    for b in s {
        h ^= *b as u64;
        h = h.wrapping_mul(0x100000001b3);
    }
    h
}

pub fn clip(s: &str, n: usize) -> String {
    if s.len() <= n {
        s.to_string()
    } else {
        let mut e = n;
        while !s.is_char_boundary(e) {
            e -= 1;
        }
        format!("{}…(+{} bytes)", &s[..e], s.len() - e)
    }
}

/// a scratch directory private to the calling worker thread (created empty on first use
/// per call site; callers clean up what they create)
pub fn thread_dir(prop: &str) -> PathBuf {
    let t = std::thread::current();
    let name = t.name().unwrap_or("main").to_string();
    let d = crate::core::run::verif_dir().join(".work").join(prop).join(format!("t-{}-{}", std::process::id(), name));
    let _ = std::fs::create_dir_all(&d);
    d
}

pub use sv_parser_parser::verif::{Policy, Stats};

/// run `f` with this thread's memo table re-created under `policy` (and, if `sound_key`, the
/// diagnostic mode in which flagged spans bypass the table), then restore the shipped configuration
pub fn with_policy<T>(policy: Policy, sound_key: bool, f: impl FnOnce() -> T) -> (T, Stats) {
    use sv_parser_parser::verif as v;
    v::set_packrat_policy(policy);
    // diagnostic mode: results computed under a live left-recursion flag stay out of the table
    v::set_bypass_flagged(sound_key);
    v::reset_stats();
    let r = guarded(f);
    let st = v::packrat_stats();
    v::set_sound_key(false);
    v::set_bypass_flagged(false);
    v::set_packrat_policy(Policy::Fifo(Some(1024)));
    v::reset_stats();
    match r {
        Ok(r) => (r, st),
        Err(p) => panic!("{}", p),
    }
}

pub const SIG_MEMO: &str = "result-depends-on-memo-eviction";

/// known-finding signature of one specific input whose result depends on memo eviction
pub fn memo_sig_for(src: &str) -> String {
    format!("{}/in={:016x}", SIG_MEMO, fnv(src.as_bytes()))
}

/// Is the nows-skeleton `want` obtained for `src` once nothing is ever evicted from the
/// memo table? (attribution of a failure to the known memo defect, see DESIGN.md 7/P10)
pub fn unbounded_memo_gives(src: &str, lib: bool, want: &str) -> bool {
    let (r, _) = with_policy(Policy::Fifo(None), false, || parse_simple(src, lib, false));
    match r {
        Ok(Ok((t, _))) => crate::util::tree::skeleton_nows(&t) == want,
        _ => false,
    }
}
