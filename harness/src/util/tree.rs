//! Observations on a SyntaxTree: an index of all nodes (built from the event iteration),
//! skeleton renderings for equality tests, and the lossless-tiling invariant of C01.

use std::fmt::Write;
use sv_parser::{Locate, NodeEvent, RefNode, SyntaxTree};

pub struct NodeRec<'a> {
    pub node: RefNode<'a>,
    pub kind: String,
    /// position in pre-order
    pub pre: usize,
    /// pre-order position one past the last descendant
    pub end: usize,
    pub depth: usize,
    /// leaves[first_leaf..leaf_end] are this node's leaves
    pub first_leaf: usize,
    pub leaf_end: usize,
    /// strictly inside a WhiteSpace node (or being one)
    pub in_ws: bool,
    pub parent: Option<usize>,
}

pub struct TreeIndex<'a> {
    pub nodes: Vec<NodeRec<'a>>,
    pub leaves: Vec<(&'a Locate, usize)>, // (leaf, node index)
}

pub fn kind_of(n: &RefNode) -> String {
    let mut s = String::new();
    let _ = write!(s, "{}", n);
    s
}

/// Build the index from the event view; returns Err on any violation of event discipline
/// (Leave without matching Enter, unbalanced, events left on the stack).
pub fn index<'a>(tree: &'a SyntaxTree) -> Result<TreeIndex<'a>, String> {
    index_events(tree.into_iter().event())
}

pub fn index_events<'a>(ev: impl Iterator<Item = NodeEvent<'a>>) -> Result<TreeIndex<'a>, String> {
    let mut nodes: Vec<NodeRec<'a>> = vec![];
    let mut leaves: Vec<(&'a Locate, usize)> = vec![];
    let mut stack: Vec<usize> = vec![];
    let mut ws_depth = 0usize;
    for e in ev {
        match e {
            NodeEvent::Enter(n) => {
                let is_ws = matches!(n, RefNode::WhiteSpace(_));
                if is_ws {
                    ws_depth += 1;
                }
                let id = nodes.len();
                if let RefNode::Locate(l) = &n {
                    leaves.push((*l, id));
                }
                let kind = kind_of(&n);
                nodes.push(NodeRec {
                    node: n,
                    kind,
                    pre: id,
                    end: 0,
                    depth: stack.len(),
                    first_leaf: if leaves.is_empty() { 0 } else { leaves.len() - 1 },
                    leaf_end: 0,
                    in_ws: ws_depth > 0,
                    parent: stack.last().copied(),
                });
                // first_leaf for non-leaf nodes = number of leaves seen so far
                if !matches!(nodes[id].node, RefNode::Locate(_)) {
                    nodes[id].first_leaf = leaves.len();
                }
                stack.push(id);
            }
            NodeEvent::Leave(n) => {
                let id = match stack.pop() {
                    Some(id) => id,
                    None => return Err(format!("Leave({}) with empty stack", kind_of(&n))),
                };
                if nodes[id].node != n {
                    return Err(format!(
                        "Leave({}) does not match innermost open Enter({})",
                        kind_of(&n),
                        nodes[id].kind
                    ));
                }
                nodes[id].end = nodes.len();
                nodes[id].leaf_end = leaves.len();
                if matches!(n, RefNode::WhiteSpace(_)) {
                    ws_depth -= 1;
                }
            }
        }
    }
    if !stack.is_empty() {
        return Err(format!("{} Enter event(s) never left", stack.len()));
    }
    Ok(TreeIndex { nodes, leaves })
}

/// the text the tree was parsed from, taken from the leaves themselves (first leaf start .. last leaf end
/// must be one contiguous stretch of `get_str` answers); None if the leaves do not tile - C01 reports that
pub fn text_from_leaves(tree: &SyntaxTree, ix: &TreeIndex) -> Option<String> {
    let mut out = String::new();
    let mut pos = ix.leaves.first().map(|(l, _)| l.offset).unwrap_or(0);
    if pos != 0 {
        return None;
    }
    for (l, _) in &ix.leaves {
        if l.offset != pos {
            return None;
        }
        out.push_str(tree.get_str(*l)?);
        pos = l.offset + l.len;
    }
    Some(out)
}

/// node kinds with exact leaf positions
pub fn skeleton_full(tree: &SyntaxTree) -> String {
    let mut s = String::new();
    for n in tree {
        match n {
            RefNode::Locate(l) => {
                let _ = write!(s, "@{}+{}:{} ", l.offset, l.len, l.line);
            }
            n => {
                let _ = write!(s, "{} ", n);
            }
        }
    }
    s
}

/// node kinds and token texts with every WhiteSpace subtree removed (no positions)
pub fn skeleton_nows(tree: &SyntaxTree) -> String {
    let mut s = String::new();
    let mut skip = 0usize;
    for e in tree.into_iter().event() {
        match e {
            NodeEvent::Enter(RefNode::WhiteSpace(_)) => skip += 1,
            NodeEvent::Leave(RefNode::WhiteSpace(_)) => skip -= 1,
            NodeEvent::Enter(RefNode::Locate(l)) if skip == 0 => {
                let _ = write!(s, "'{}' ", tree.get_str(l).unwrap_or("<none>"));
            }
            NodeEvent::Enter(n) if skip == 0 => {
                let _ = write!(s, "{} ", n);
            }
            _ => {}
        }
    }
    s
}

pub struct Tiling {
    pub leaves: usize,
    pub nodes: usize,
    pub covered: usize,
}

/// The C01 invariant. `text` is the preprocessed text obtained independently.
/// strict: leaves must cover all of `text`; otherwise a prefix.
pub fn check_tiling(tree: &SyntaxTree, ix: &TreeIndex, text: &str, strict: bool) -> Result<Tiling, String> {
    let mut pos = 0usize;
    let mut rebuilt = String::with_capacity(text.len());
    // line numbers: 1 + newlines before offset
    let mut nl_upto = 0usize; // newlines counted in text[..nl_pos]
    let mut nl_pos = 0usize;
    for (k, (l, _)) in ix.leaves.iter().enumerate() {
        if l.len == 0 {
            return Err(format!("leaf #{} at offset {} is empty", k, l.offset));
        }
        if l.offset != pos {
            return Err(format!(
                "leaf #{} starts at {} but the previous leaf ended at {} ({})",
                k,
                l.offset,
                pos,
                if l.offset > pos { "gap" } else { "overlap" }
            ));
        }
        let end = l.offset + l.len;
        if end > text.len() {
            return Err(format!("leaf #{} ends at {} beyond the text ({} bytes)", k, end, text.len()));
        }
        if !text.is_char_boundary(l.offset) || !text.is_char_boundary(end) {
            return Err(format!("leaf #{} [{}..{}] is not on character boundaries", k, l.offset, end));
        }
        // line
        nl_upto += text.as_bytes()[nl_pos..l.offset].iter().filter(|b| **b == b'\n').count();
        nl_pos = l.offset;
        let want_line = 1 + nl_upto as u32;
        if l.line != want_line {
            return Err(format!(
                "leaf #{} at offset {} records line {} but {} newline(s) precede it",
                k, l.offset, l.line, nl_upto
            ));
        }
        match tree.get_str(*l) {
            Some(s) if s == &text[l.offset..end] => rebuilt.push_str(s),
            other => {
                return Err(format!(
                    "get_str(leaf #{}) = {:?} but the text slice is {:?}",
                    k,
                    other,
                    &text[l.offset..end]
                ))
            }
        }
        pos = end;
    }
    if strict && pos != text.len() {
        return Err(format!("leaves end at {} but the preprocessed text has {} bytes", pos, text.len()));
    }
    if rebuilt != text[..pos] {
        return Err("concatenation of get_str over the leaves differs from the text".to_string());
    }
    // every node: get_str == slice spanned by its own leaves
    for n in &ix.nodes {
        let got = tree.get_str(vec![n.node.clone()]);
        if n.first_leaf == n.leaf_end {
            if got.is_some() {
                return Err(format!("get_str of leafless {} returned {:?}", n.kind, got));
            }
            continue;
        }
        let b = ix.leaves[n.first_leaf].0.offset;
        let last = ix.leaves[n.leaf_end - 1].0;
        let e = last.offset + last.len;
        if got != Some(&text[b..e]) {
            return Err(format!(
                "get_str({} #{}) = {:?} but its leaves span [{}..{}] = {:?}",
                n.kind,
                n.pre,
                got,
                b,
                e,
                &text[b..e]
            ));
        }
    }
    Ok(Tiling { leaves: ix.leaves.len(), nodes: ix.nodes.len(), covered: pos })
}

/// text of the first SimpleIdentifier / EscapedIdentifier at or below node `i`
pub fn first_identifier<'a>(tree: &'a SyntaxTree, ix: &TreeIndex, i: usize) -> Option<&'a str> {
    for j in i..ix.nodes[i].end {
        match &ix.nodes[j].node {
            RefNode::SimpleIdentifier(x) => return tree.get_str(&x.nodes.0),
            RefNode::EscapedIdentifier(x) => return tree.get_str(&x.nodes.0),
            _ => {}
        }
    }
    None
}

/// span [b, e) of the node's non-whitespace leaves
pub fn trim_span(ix: &TreeIndex, i: usize) -> Option<(usize, usize)> {
    let n = &ix.nodes[i];
    let mut b = None;
    let mut e = 0;
    for k in n.first_leaf..n.leaf_end {
        let (l, id) = ix.leaves[k];
        // a leaf is "whitespace" if it lies in a WhiteSpace subtree that is itself inside node i
        // (if node i is inside whitespace already, get_str_trim still skips only nested WhiteSpace
        //  nodes it *enters*; handled by the caller)
        if ix.nodes[id].in_ws && ws_ancestor_within(ix, id, i) {
            continue;
        }
        if b.is_none() {
            b = Some(l.offset);
        }
        e = l.offset + l.len;
    }
    b.map(|b| (b, e))
}

fn ws_ancestor_within(ix: &TreeIndex, mut id: usize, top: usize) -> bool {
    loop {
        if matches!(ix.nodes[id].node, RefNode::WhiteSpace(_)) {
            return true;
        }
        if id == top {
            return false;
        }
        match ix.nodes[id].parent {
            Some(p) => id = p,
            None => return false,
        }
    }
}

include!(concat!(env!("OUT_DIR"), "/try_locate.rs"));

/// `Locate::try_from(node)` for every node of the tree: must not panic and must agree with
/// the span of the node's own leaves
pub fn check_try_locate(ix: &TreeIndex) -> Result<usize, String> {
    let mut n_checked = 0;
    for n in &ix.nodes {
        let got = crate::util::api::guarded(|| try_locate(&n.node)).map_err(|p| format!("Locate::try_from({} #{}) panicked: {}", n.kind, n.pre, p))?;
        if n.first_leaf == n.leaf_end {
            if got.is_ok() {
                return Err(format!("Locate::try_from(leafless {}) returned {:?}", n.kind, got));
            }
            continue;
        }
        let first = ix.leaves[n.first_leaf].0;
        let last = ix.leaves[n.leaf_end - 1].0;
        let want = Locate { offset: first.offset, line: first.line, len: last.offset + last.len - first.offset };
        if got != Ok(want) {
            return Err(format!("Locate::try_from({} #{}) = {:?}, its leaves span {:?}", n.kind, n.pre, got, want));
        }
        n_checked += 1;
    }
    Ok(n_checked)
}
