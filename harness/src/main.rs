mod core;
mod corpus;
mod engines;
mod models;
mod props;
mod util;

use crate::core::run::{finish, run_check, RunOpts, Tier};
use std::time::Duration;

fn usage() -> ! {
    eprintln!("usage: svcheck run <Cxx> <quick|thorough> | svcheck one <Cxx> <tier> <part> <index> | svcheck replay <file> | svcheck list");
    std::process::exit(2)
}

fn tier_of(s: &str) -> Tier {
    match s {
        "quick" => Tier::Quick,
        "thorough" => Tier::Thorough,
        _ => usage(),
    }
}

fn main() {
    let args: Vec<String> = std::env::args().collect();
    if args.len() < 2 {
        usage();
    }
    util::api::quiet_panics();
    let seed: u64 = std::env::var("VERIF_SEED").ok().and_then(|s| s.parse().ok()).unwrap_or(0);
    let code = match args[1].as_str() {
        "tree" if args.len() >= 3 => {
            // debugging aid: print the tree of a source file (or literal text with --text)
            let src = if args[2] == "--text" { args[3].replace("\\n", "\n") } else { std::fs::read_to_string(&args[2]).expect("read") };
            let lib = args.iter().any(|a| a == "--lib");
            match util::api::parse_simple(&src, lib, args.iter().any(|a| a == "--incomplete")) {
                Ok(Ok((t, _))) => {
                    let ix = util::tree::index(&t).expect("index");
                    for (i, n) in ix.nodes.iter().enumerate() {
                        let sp = util::tree::trim_span(&ix, i);
                        println!("{}{}{} {}", " ".repeat(n.depth), n.kind, if n.in_ws { "~" } else { "" }, sp.map(|(b, e)| format!("{:?}", &src[b..e.min(src.len())])).unwrap_or_default());
                    }
                    0
                }
                Ok(Err(e)) => {
                    println!("error: {}", util::api::err_sig(&e));
                    1
                }
                Err(p) => {
                    println!("panic: {}", p);
                    1
                }
            }
        }
        "pp" if args.len() >= 3 => {
            // debugging aid: preprocess literal text, print output / error and origins
            let src = args[2].replace("\\n", "\n");
            let strip = args.iter().any(|a| a == "--strip");
            let mut d = util::api::Defs::new();
            for a in &args[3..] {
                if let Some(n) = a.strip_prefix("-D") {
                    d.insert(n.to_string(), None);
                }
            }
            match util::api::pp_str(&src, std::path::Path::new("top.sv"), &d, &[] as &[std::path::PathBuf], false, strip) {
                Ok(Ok((pt, defs))) => {
                    println!("text: {:?}", pt.text());
                    println!("origins: {:?}", (0..pt.text().len()).map(|i| pt.origin(i).map(|(_, o)| o as i64).unwrap_or(-1)).collect::<Vec<_>>());
                    println!("defines: {:?}", util::api::defs_sig(&defs, false, false));
                    0
                }
                Ok(Err(e)) => {
                    println!("error: {}", util::api::err_sig(&e));
                    1
                }
                Err(p) => {
                    println!("panic: {}", p);
                    1
                }
            }
        }
        "c17child" if args.len() >= 5 => props::c17::child(&args[2..]),
        "c09child" if args.len() >= 3 => props::c09::child(&args[2..]),
        "list" => {
            for p in props::ALL {
                println!("{}", p);
            }
            0
        }
        "run" if args.len() >= 4 => {
            let tier = tier_of(&args[3]);
            let Some(check) = props::build(&args[2], tier) else { usage() };
            let budget = std::env::var("VERIF_BUDGET_S").ok().and_then(|s| s.parse().ok()).unwrap_or(match tier {
                Tier::Quick => 240,
                Tier::Thorough => 3600,
            });
            let opts = RunOpts { only: None, budget: Duration::from_secs(budget), seed };
            let rep = run_check(&check, &opts);
            finish(&check, &opts, rep)
        }
        "one" if args.len() >= 6 => {
            let tier = tier_of(&args[3]);
            let Some(check) = props::build(&args[2], tier) else { usage() };
            let idx: u64 = args[5].parse().unwrap_or_else(|_| usage());
            let opts = RunOpts { only: Some((args[4].clone(), idx)), budget: Duration::from_secs(600), seed };
            let rep = run_check(&check, &opts);
            finish(&check, &opts, rep)
        }
        "replay" if args.len() >= 3 => {
            let body = std::fs::read_to_string(&args[2]).unwrap_or_else(|e| {
                eprintln!("cannot read {}: {}", args[2], e);
                std::process::exit(2)
            });
            let v: serde_json::Value = serde_json::from_str(&body).expect("replay file is JSON");
            let prop = v["property"].as_str().expect("property").to_string();
            let tier = tier_of(v["tier"].as_str().unwrap_or("quick"));
            let part = v["part"].as_str().expect("part").to_string();
            let idx = v["index"].as_u64().expect("index");
            let Some(check) = props::build(&prop, tier) else { usage() };
            println!("replaying {} {} part={} index={}", prop, tier.name(), part, idx);
            let opts = RunOpts { only: Some((part, idx)), budget: Duration::from_secs(600), seed };
            let rep = run_check(&check, &opts);
            finish(&check, &opts, rep)
        }
        _ => usage(),
    };
    std::process::exit(code);
}
