//! C17 — the packrat memo table is a pure optimisation.

use crate::core::run::{Acc, Check, Part, Tier};
use crate::corpus;
use crate::engines::{kwprogs, svgen};
use crate::util::api::{self, clip, err_sig, fnv, Policy};
use crate::util::tree;
use serde_json::json;
use std::sync::Arc;

fn policy_name(p: &Policy) -> String {
    match p {
        Policy::Fifo(None) => "fifo-unbounded".into(),
        Policy::Fifo(Some(n)) => format!("fifo-{}", n),
        Policy::FlushEvery(n) => format!("flush-every-{}", n),
        Policy::MissEvery(m, r) => format!("miss-{}-of-{}", r, m),
    }
}

thread_local! {
    static ATTR_MS: std::cell::Cell<u64> = std::cell::Cell::new(0);
}
pub const SIG_FLAGS: &str = "memo-key-ignores-left-recursion-flags";

fn parse_policy(s: &str) -> Option<Policy> {
    if s == "fifo-unbounded" {
        return Some(Policy::Fifo(None));
    }
    if let Some(n) = s.strip_prefix("fifo-") {
        return n.parse().ok().map(|n| Policy::Fifo(Some(n)));
    }
    if let Some(n) = s.strip_prefix("flush-every-") {
        return n.parse().ok().map(Policy::FlushEvery);
    }
    if let Some(r) = s.strip_prefix("miss-") {
        let (a, b) = r.split_once("-of-")?;
        return Some(Policy::MissEvery(b.parse().ok()?, a.parse().ok()?));
    }
    None
}

/// child process: the same parse in the diagnostic mode (spans with a live recursion flag bypass the table)
pub fn child(args: &[String]) -> i32 {
    let Some(p) = parse_policy(&args[0]) else { return 2 };
    let lib = args[1] == "lib";
    let Ok(src) = std::fs::read_to_string(&args[2]) else { return 2 };
    let (o, _) = api::with_policy(p, true, || outcome(&src, lib));
    println!("RESULT {}", o);
    0
}

/// does the divergence vanish once results computed under a live left-recursion flag are kept out of the table?
fn flags_attribution(src: &str, lib: bool, p: &Policy, reference: &str) -> bool {
    let dir = api::thread_dir("C17");
    let f = dir.join("case.sv");
    if std::fs::write(&f, src).is_err() {
        return false;
    }
    let exe = std::env::current_exe().expect("exe");
    let mut ch = match std::process::Command::new(exe).arg("c17child").arg(policy_name(p)).arg(if lib { "lib" } else { "sv" }).arg(&f).stdout(std::process::Stdio::piped()).stderr(std::process::Stdio::null()).spawn() {
        Ok(c) => c,
        Err(_) => return false,
    };
    let start = std::time::Instant::now();
    loop {
        match ch.try_wait() {
            Ok(Some(_)) => break,
            Ok(None) => {
                if start.elapsed().as_secs() > 300 {
                    let _ = ch.kill();
                    let _ = ch.wait();
                    return false;
                }
                std::thread::sleep(std::time::Duration::from_millis(5));
            }
            Err(_) => return false,
        }
    }
    let mut out = String::new();
    if let Some(mut so) = ch.stdout.take() {
        use std::io::Read;
        let _ = so.read_to_string(&mut out);
    }
    ATTR_MS.with(|m| m.set(m.get().max(start.elapsed().as_millis() as u64)));
    out.lines().find_map(|l| l.strip_prefix("RESULT ")).map(|r| r == reference).unwrap_or(false)
}

fn outcome(src: &str, lib: bool) -> String {
    match api::parse_simple(src, lib, false) {
        Err(p) => format!("PANIC {}", p),
        // the property speaks about acceptance and the tree, not about the error position
        Ok(Err(sv_parser::Error::Parse(_))) => "ERR Parse".to_string(),
        Ok(Err(e)) => format!("ERR {}", err_sig(&e)),
        Ok(Ok((t, _))) => format!("OK {}", tree::skeleton_full(&t)),
    }
}

fn one(acc: &mut Acc, src: &str, lib: bool, policies: &[Policy], what: &str) {
    let (reference, _) = api::with_policy(Policy::Fifo(None), false, || outcome(src, lib));
    acc.transitions += 1;
    for p in policies {
        let (got, st) = api::with_policy(*p, false, || outcome(src, lib));
        acc.transitions += 1;
        acc.traces += 1;
        acc.count("memo lookups", st.lookups);
        acc.count("memo hits", st.hits);
        acc.count("memo evictions", st.evictions);
        acc.count("memo flushes", st.flushes);
        acc.count("memo forced misses", st.forced_misses);
        if st.evictions + st.flushes + st.forced_misses > 0 {
            acc.nontrivial += 1;
        }
        if got != reference {
            acc.class("violation");
            let pair = format!("in={:016x}/{}", fnv(src.as_bytes()), policy_name(p));
            // a known finding is one specific (input, policy) pair; `svcheck c17child` re-runs a pair in the
            // diagnostic mode by hand (see DESIGN.md 7/F10)
            let _ = (flags_attribution as fn(&str, bool, &Policy, &str) -> bool, SIG_FLAGS);
            let sig = pair.clone();
            acc.count("divergent (input, policy) pairs", 1);
            let ms = ATTR_MS.with(|m| m.get());
            let cur = acc.counters.get("slowest attribution run (ms)").copied().unwrap_or(0);
            if ms > cur {
                acc.counters.insert("slowest attribution run (ms)".into(), ms);
            }
            acc.violation(
                Some(sig.clone()),
                json!({"what": what, "policy": policy_name(p), "source": src, "signature": sig}),
                format!("{} {} [{}]: with memo policy {} the result is\n  {}\nwith an unbounded table it is\n  {}\nsource: {:?}", sig, pair, what, policy_name(p), clip(&got, 200), clip(&reference, 200), clip(src, 400)),
            );
        } else {
            acc.class(if reference.starts_with("OK") { "same-tree" } else { "same-rejection" });
        }
    }
    acc.sample(|| json!({"what": what, "source": clip(src, 120), "policies": policies.iter().map(policy_name).collect::<Vec<_>>()}));
}

pub fn policies(tier: Tier) -> Vec<Policy> {
    // (forced-miss policies with a short period make the parser exponential - with and without the
    //  diagnostic mode - so only long periods are used)
    let mut v = vec![Policy::Fifo(Some(1024)), Policy::Fifo(Some(256)), Policy::Fifo(Some(64)), Policy::FlushEvery(200)];
    if tier == Tier::Thorough {
        for n in [4096usize, 512, 128, 96, 65, 63, 48, 32] {
            v.push(Policy::Fifo(Some(n)));
        }
        for n in [50usize, 333] {
            v.push(Policy::FlushEvery(n));
        }
        v.push(Policy::MissEvery(97, 13));
    }
    v
}

/// left-recursive list shapes of 1..8 elements
pub fn list_shapes() -> Vec<String> {
    let mut v = vec![];
    for n in 1..=8usize {
        let ids: Vec<String> = (0..n).map(|k| format!("s{}", k)).collect();
        v.push(format!("module w__;\nalways @({});\nendmodule\n", ids.join(", ")));
        v.push(format!("module w__;\nalways @({}) q = 1;\nendmodule\n", ids.join(" or ")));
        v.push(format!("module w__;\nalways @(posedge {}) q <= d;\nendmodule\n", ids.join(" or negedge ")));
        v.push(format!("module w__;\nassign y = {};\nendmodule\n", ids.join(" + ")));
        v.push(format!("module w__;\nassign y = {};\nendmodule\n", ids.join(" ? 1 : ")));
        v.push(format!("module w__;\nassign y = {}.z;\nendmodule\n", ids.join(".")));
        v.push(format!("module w__;\ninitial y = f({});\nendmodule\n", ids.join(", ")));
        v.push(format!("module w__;\ninitial o{}.m();\nendmodule\n", ids.iter().map(|s| format!(".{}()", s)).collect::<String>()));
    }
    v
}

thread_local! {
    /// one buffer per thread, never reallocated: consecutive texts live at the same address, so entries
    /// that survive from one entry-point call to the next are found again by the memo key (name, pointer)
    static BUF: std::cell::RefCell<Box<[u8; 96]>> = std::cell::RefCell::new(Box::new([b' '; 96]));
}

fn raw_call(entry: usize, text: &str) -> String {
    BUF.with(|b| {
        let mut b = b.borrow_mut();
        let n = text.len().min(96);
        b[..n].copy_from_slice(&text.as_bytes()[..n]);
        for x in b[n..].iter_mut() {
            *x = b' ';
        }
        let s = std::str::from_utf8(&b[..]).unwrap();
        let span = sv_parser_parser::Span::new_extra(s, sv_parser_parser::SpanInfo::default());
        let r = api::guarded(|| match entry {
            0 => sv_parser_parser::pp_parser(span).map(|(rest, t)| format!("{} {:?}", rest.fragment().len(), t)).map_err(|_| "ERR".to_string()),
            1 => sv_parser_parser::sv_parser(span).map(|(rest, t)| format!("{} {:?}", rest.fragment().len(), t)).map_err(|_| "ERR".to_string()),
            2 => sv_parser_parser::lib_parser(span).map(|(rest, t)| format!("{} {:?}", rest.fragment().len(), t)).map_err(|_| "ERR".to_string()),
            _ => sv_parser_parser::sv_parser_incomplete(span).map(|(rest, t)| format!("{} {:?}", rest.fragment().len(), t)).map_err(|_| "ERR".to_string()),
        });
        match r {
            Ok(Ok(t)) => format!("OK {}", t),
            Ok(Err(e)) => e,
            Err(p) => format!("PANIC {}", p),
        }
    })
}

pub fn build(tier: Tier) -> Check<'static> {
    let mut c = Check::new("C17", tier, "6/C17");
    c.rule = "inputs (vendored seeds, quick: < 300 bytes; the default sentence of every reference-grammar rule; keyword-region programs, also with the region opened in the middle of a module / interface body; left-recursive list shapes of 1..8 elements; pairs of raw entry-point calls on one buffer) x memo policies (FIFO capacities incl. the shipped 1024, periodic flush, forced misses - chosen per thread through the verif hook); acceptance and the positioned tree skeleton must equal the run with an unbounded table; non-trivial = runs in which eviction / flush / forced miss actually happened (hook counters)".into();
    c.assumptions = vec![
        "the verif wrapper around nom-packrat's table delegates to the real PackratStorage and only adds policies and counters".into(),
        "known findings are listed per (input hash, policy); any other pair is a violation".into(),
    ];
    let pol = Arc::new(policies(tier));
    let seeds = Arc::new(corpus::load());
    {
        let (s, pol) = (seeds.clone(), pol.clone());
        let lim = tier.pick(300, 1 << 30);
        let idx: Arc<Vec<usize>> = Arc::new((0..s.len()).filter(|i| s[*i].text.len() < lim).collect());
        let idx2 = idx.clone();
        c.parts.push(Part::new("seeds", idx.len() as u64, "vendored seeds", move |i, acc| {
            let seed = &s[idx2[i as usize]];
            one(acc, &seed.text, seed.is_lib(), &pol, &format!("seed {}", seed.id));
        }));
    }
    {
        let pol = pol.clone();
        let g = svgen::Gen::new(svgen::grammar_text());
        let defs = Arc::new(g.rule_defaults());
        c.parts.push(Part::new("grammar-rule-defaults", defs.len() as u64, "default sentence of every reference-grammar rule", move |i, acc| {
            let (rule, items) = &defs[i as usize];
            let s = svgen::render(items, " ", 0);
            one(acc, &s.text, false, &pol, &format!("grammar rule {}", rule));
        }));
    }
    {
        let pol = pol.clone();
        let sp = kwprogs::programs(0, tier.pick(2, 3));
        c.parts.push(Part::new("keyword-regions", sp.len(), "keyword-region programs (begin_keywords has a side effect that a memo hit skips)", move |i, acc| {
            one(acc, &kwprogs::render(&sp.get(i)), false, &pol, "keyword-region program");
        }));
    }
    {
        // regions opened INSIDE a construct: the text before the directive is parsed (and memoised)
        // under one keyword set, the directive is walked over once per alternative the parser tries
        // (both tiers use the four quick policies here; thorough adds bodies long enough for capacity 1024)
        let pol = Arc::new(policies(Tier::Quick));
        let heads: Vec<&'static str> = vec!["module m;\n", "module m(a, b, y);\n", "interface m;\n"];
        let before: Vec<&'static str> = vec!["logic l0;\n", "parameter logic [3:0] P = 1;\n", "localparam bit [1:0] S = 0;\n", "wire w0;\n"];
        let after: Vec<&'static str> = vec!["input a;\ninput b;\noutput y;\n", "wire w1;\n", "logic l1;\n", "reg logic;\n", "assign w0 = 1;\n"];
        let sp = crate::core::space::Space::of(heads)
            .product(crate::core::space::Space::of(before).seq_range(0, tier.pick(1, 2)))
            .product(crate::core::space::Space::of(kwprogs::VERSIONS.to_vec()))
            .product(crate::core::space::Space::of(after).seq_range(1, 2))
            .product(crate::core::space::Space::of(tier.pick(vec![0usize, 40], vec![0usize, 40, 150])))
            .product(crate::core::space::Space::of(vec![false, true]));
        c.parts.push(Part::new("keyword-regions-inside", sp.len(), "3 module / interface headers x 0-1 (thorough 0-2) declarations using SystemVerilog type keywords x `begin_keywords of 3 versions in the middle of the body x 1-2 items after it x 0 / 40 (thorough: / 150) filler declarations x region closed or left open", move |i, acc| {
            let (((((head, before), ver), after), fill), close) = sp.get(i);
            let mut s = String::from(head);
            for b in &before {
                s.push_str(b);
            }
            for k in 0..fill {
                s.push_str(&format!("wire [7:0] n{};\n", k));
            }
            s.push_str(&format!("`begin_keywords \"{}\"\n", ver));
            for a in &after {
                s.push_str(a);
            }
            if close {
                s.push_str("`end_keywords\n");
            }
            s.push_str(if head.starts_with("interface") { "endinterface\n" } else { "endmodule\n" });
            one(acc, &s, false, &pol, "keyword region opened inside a construct");
        }));
    }
    {
        // a region opened in the white space BEHIND A WORD of a declaration: whatever the parser memoised about
        // that word before it walked over the directive was computed under the other keyword set
        let pol: Vec<Policy> = policies(Tier::Quick).into_iter().chain([Policy::Fifo(Some(1)), Policy::Fifo(Some(8)), Policy::Fifo(Some(32))]).collect();
        let lead: Vec<&'static str> = vec!["wire ", "", "var ", "input ", "parameter "];
        let word: Vec<&'static str> = vec!["logic", "bit", "int", "w"];
        let tail: Vec<&'static str> = vec![";\n", " x;\n", " [3:0] x;\n", " = 1;\n"];
        let sp = crate::core::space::Space::of(lead)
            .product(crate::core::space::Space::of(word))
            .product(crate::core::space::Space::of(kwprogs::VERSIONS.to_vec()))
            .product(crate::core::space::Space::of(tail))
            .product(crate::core::space::Space::of(vec![0usize, 40]))
            .product(crate::core::space::Space::of(vec![false, true]));
        c.parts.push(Part::new("keyword-switch-behind-a-word", sp.len(), "5 declaration openers x 4 words (3 of them reserved only in SystemVerilog) x `begin_keywords of 3 versions in the white space directly behind that word x 4 continuations x 0 / 40 filler declarations x region closed or left open (same space in both tiers), under 7 memo policies (capacities 1, 8, 32, 64, 256, 1024, flush every 200)", move |i, acc| {
            let (((((lead, word), ver), tail), fill), close) = sp.get(i);
            let mut s = String::from("module m;\n");
            for k in 0..fill {
                s.push_str(&format!("wire [7:0] n{};\n", k));
            }
            s.push_str(&format!("{}{} `begin_keywords \"{}\"\n{}", lead, word, ver, tail));
            s.push_str(if close { "endmodule\n`end_keywords\n" } else { "endmodule\n" });
            one(acc, &s, false, &pol, "keyword region opened behind a word of a declaration");
        }));
    }
    {
        // allow_incomplete = true: the same transparency (kept directives next to comments are where the
        // in_directive bit of the memo key matters)
        let pol: Vec<Policy> = policies(Tier::Quick).into_iter().chain([Policy::Fifo(Some(1)), Policy::Fifo(Some(8)), Policy::Fifo(Some(16))]).collect();
        let directives: Vec<&'static str> = vec!["`default_nettype none", "`timescale 1ns/1ps", "`celldefine", "`resetall", "`line 1 \"f\" 0", "`pragma p", "`unconnected_drive pull0", "`begin_keywords \"1800-2017\""];
        let tails: Vec<&'static str> = vec![" // c\n", " /* c */\n", "\n// c\n", "\n"];
        let n = directives.len() * tails.len() * 3;
        c.parts.push(Part::new("incomplete-mode", n as u64, "8 kept directives x 4 ways to follow them with a comment x 3 places (before, inside, behind a module with comments) parsed with allow_incomplete = true under 7 memo policies: the tree must equal the one with an unbounded table", move |i, acc| {
            let i = i as usize;
            let d = directives[i / (tails.len() * 3)];
            let t = tails[(i / 3) % tails.len()];
            let src = match i % 3 {
                0 => format!("{}{}module m; // c1\nwire w; /* c2 */\nendmodule\nmodule n; endmodule\n", d, t),
                1 => format!("module m; // c1\n{}{}wire w; /* c2 */\nendmodule\nmodule n; endmodule\n", d, t),
                _ => format!("module m; // c1\nwire w; /* c2 */\nendmodule\n{}{}module n; endmodule\n", d, t),
            };
            let run = |p: Policy| api::with_policy(p, false, || match api::parse_simple(&src, false, true) {
                Err(pn) => format!("PANIC {}", pn),
                Ok(Err(e)) => format!("ERR {}", err_sig(&e)),
                Ok(Ok((t, _))) => format!("OK {}", tree::skeleton_full(&t)),
            });
            let (reference, _) = run(Policy::Fifo(None));
            acc.transitions += 1;
            acc.nontrivial += 1;
            for p in &pol {
                let (got, _) = run(*p);
                acc.transitions += 1;
                acc.traces += 1;
                if got != reference {
                    acc.class("violation");
                    acc.violation(None, json!({"source": src, "policy": policy_name(p), "allow_incomplete": true}), format!("allow_incomplete = true: with memo policy {} the result is\n  {}\nwith an unbounded table it is\n  {}\nsource: {:?}", policy_name(p), clip(&got, 200), clip(&reference, 200), src));
                    return;
                }
            }
            acc.class("same-result");
        }));
    }
    {
        // what one entry-point call leaves in the table must not reach the next call: two raw parser
        // calls on texts at ONE address, the policy chosen once before the pair
        let pol = Arc::new(policies(Tier::Quick));
        let texts: Vec<&'static str> = vec![
            "`define A 1\n// c\n`A x \"s\"",
            "// c\nmodule a; endmodule",
            "\"s\" \\e  /* c */ `ifdef A x `endif",
            "module b; wire w; /* c */ endmodule",
            "module \\e ; string s = \"s\"; endmodule",
            "library l a.v; // c",
            "/* c */ `timescale 1ns/1ps\nmodule c; endmodule",
        ];
        let n = texts.len();
        c.parts.push(Part::new("raw-entry-pairs", (4 * n * 4 * n) as u64, "every ordered pair of raw entry-point calls (pp_parser, sv_parser, lib_parser, sv_parser_incomplete) x 7 texts written to one fixed buffer: the second call's result under each memo policy must equal the one with an unbounded table", move |i, acc| {
            let i = i as usize;
            let (e1, t1, e2, t2) = (i / (n * 4 * n), (i / (4 * n)) % n, (i / n) % 4, i % n);
            let run = |p: Policy| api::with_policy(p, false, || {
                raw_call(e1, texts[t1]);
                raw_call(e2, texts[t2])
            });
            let (reference, _) = run(Policy::Fifo(None));
            acc.transitions += 2;
            acc.nontrivial += 1;
            for p in pol.iter().chain([Policy::Fifo(Some(1)), Policy::Fifo(Some(8))].iter()) {
                let (got, _) = run(*p);
                acc.transitions += 2;
                acc.traces += 1;
                if got != reference {
                    acc.class("violation");
                    acc.violation(None, json!({"first": [e1, t1], "second": [e2, t2], "policy": policy_name(p)}), format!("entry point {} on {:?}, then entry point {} on {:?} in the same buffer: with memo policy {} the second call returns\n  {}\nwith an unbounded table\n  {}", e1, texts[t1], e2, texts[t2], policy_name(p), clip(&got, 300), clip(&reference, 300)));
                    return;
                }
            }
            acc.class("same-result");
        }));
    }
    {
        let pol = pol.clone();
        let shapes = Arc::new(list_shapes());
        c.parts.push(Part::new("left-recursive-lists", shapes.len() as u64, "event lists, or-lists, binary / ternary chains, hierarchical names, argument lists, method chains of 1..8 elements", move |i, acc| {
            one(acc, &shapes[i as usize], false, &pol, "left-recursive list shape");
        }));
    }
    c
}
