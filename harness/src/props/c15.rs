//! C15 — incomplete mode never fails and agrees with strict mode.

use crate::core::run::{Acc, Check, Part, Tier};
use crate::corpus;
use crate::engines::soup;
use crate::util::api::{self, clip, defs_sig, err_sig, fnv};
use crate::util::tree;
use serde_json::json;
use std::sync::Arc;
use sv_parser::Error;

pub const JUNK_GLUED: [&str; 3] = ["é", "ééé x", "世"];
const JUNK: [&str; 4] = ["\u{1})", " \u{1}", "\n)", " ] \u{7f}"];

fn one(acc: &mut Acc, src: &str, lib: bool, with_junk: bool, what: &str) {
    let case = |extra: &str| json!({"what": what, "lib": lib, "source": clip(src, 2000), "note": extra});
    acc.transitions += 2;
    let strict = api::parse_simple(src, lib, false);
    let inc = api::parse_simple(src, lib, true);
    let text = match api::pp_str(src, std::path::Path::new("top.sv"), &api::Defs::new(), &[], false, false) {
        Ok(Ok((pt, _))) => Some(pt.text().to_string()),
        _ => None,
    };
    let (it, idefs) = match inc {
        Err(p) => {
            acc.class("violation");
            acc.violation(None, case("panic"), format!("incomplete mode panicked: {}\nsource: {:?}", p, clip(src, 600)));
            return;
        }
        Ok(Err(Error::Parse(x))) => {
            acc.class("violation");
            acc.violation(None, case("Error::Parse"), format!("incomplete mode returned Error::Parse({:?})\nsource: {:?}", x, clip(src, 600)));
            return;
        }
        Ok(Err(e)) => {
            // preprocessor-level error: strict must report the same
            acc.class("preprocess-error");
            match &strict {
                Ok(Err(e2)) if err_sig(e2) == err_sig(&e) => {}
                other => {
                    let o = match other {
                        Ok(Ok(_)) => "Ok".to_string(),
                        Ok(Err(e)) => err_sig(e),
                        Err(p) => format!("panic {}", p),
                    };
                    acc.violation(None, case("pp error differs"), format!("incomplete: {} but strict: {}\nsource: {:?}", err_sig(&e), o, clip(src, 600)));
                }
            }
            return;
        }
        Ok(Ok(x)) => x,
    };
    acc.traces += 1;
    // lossless prefix
    let text = text.unwrap_or_default();
    let r = api::guarded(|| {
        let ix = tree::index(&it)?;
        tree::check_tiling(&it, &ix, &text, false).map(|t| t.covered)
    });
    let covered = match r {
        Ok(Ok(c)) => c,
        Ok(Err(m)) | Err(m) => {
            acc.class("violation");
            acc.violation(None, case("prefix tiling"), format!("incomplete-mode tree does not tile a prefix: {}\nsource: {:?}", m, clip(src, 600)));
            return;
        }
    };
    match strict {
        Ok(Ok((st, sdefs))) => {
            acc.class("both-accept");
            acc.distinct(fnv(format!("{}{}", lib, src).as_bytes()));
            let a = tree::skeleton_full(&st);
            let b = tree::skeleton_full(&it);
            if a != b {
                acc.violation(None, case("trees differ"), format!("strict and incomplete trees differ\nstrict:     {}\nincomplete: {}\nsource: {:?}", clip(&a, 400), clip(&b, 400), clip(src, 600)));
                return;
            }
            if covered != text.len() {
                acc.violation(None, case("coverage"), format!("strict accepts but incomplete covers only {} of {} bytes", covered, text.len()));
                return;
            }
            if defs_sig(&sdefs, true, true) != defs_sig(&idefs, true, true) {
                acc.violation(None, case("defines differ"), "define tables differ between modes".into());
                return;
            }
            acc.sample(|| json!({"source": clip(src, 160), "lib": lib, "result": "strict == incomplete"}));
            if with_junk {
                let want = tree::skeleton_nows(&st);
                // junk after the source as it stands, and glued to its last token (no white space in
                // between; not behind an escaped identifier or a line comment, which it would extend)
                let trimmed = src.trim_end();
                let glue_ok = match crate::models::lexref::lex_opts(trimmed, true) {
                    Ok(lx) => !matches!(lx.last().map(|l| l.k), Some(crate::models::lexref::K::EscId) | Some(crate::models::lexref::K::LineCmt) | Some(crate::models::lexref::K::Bt) | None),
                    Err(_) => false,
                };
                let mut variants: Vec<String> = JUNK.iter().map(|j| format!("{}{}", src, j)).collect();
                if glue_ok {
                    for j in JUNK.iter().chain(JUNK_GLUED.iter()) {
                        variants.push(format!("{}{}", trimmed, j));
                    }
                }
                for s2 in variants {
                    let j = &s2[trimmed.len().min(s2.len())..];
                    acc.transitions += 1;
                    match api::parse_simple(&s2, lib, true) {
                        Ok(Ok((t2, _))) => {
                            acc.traces += 1;
                            let got = tree::skeleton_nows(&t2);
                            if got != want {
                                acc.violation(None, json!({"what": what, "lib": lib, "source": clip(&s2, 2000)}), format!("appending {:?} changed the tree\nbefore: {}\nafter:  {}\nsource: {:?}", j, clip(&want, 400), clip(&got, 400), clip(src, 600)));
                                return;
                            }
                        }
                        Ok(Err(Error::Parse(x))) => {
                            acc.violation(None, json!({"what": what, "lib": lib, "source": clip(&s2, 2000)}), format!("with {:?} appended incomplete mode returned Error::Parse({:?})", j, x));
                            return;
                        }
                        Ok(Err(_)) => {
                            acc.class("junk-breaks-preprocess");
                        }
                        Err(p) => {
                            acc.violation(None, json!({"what": what, "lib": lib, "source": clip(&s2, 2000)}), format!("with {:?} appended incomplete mode panicked: {}", j, p));
                            return;
                        }
                    }
                }
            }
        }
        Ok(Err(Error::Parse(_))) => {
            acc.class("strict-rejects-incomplete-prefix");
            if covered < text.len() || text.is_empty() {
                acc.distinct(fnv(format!("{}{}", lib, src).as_bytes()));
            } else {
                // incomplete consumed everything but strict rejected: contradiction
                acc.violation(None, case("incomplete covers all but strict rejects"), format!("incomplete mode covers the whole text ({} bytes) but strict mode rejects it\nsource: {:?}", covered, clip(src, 600)));
            }
        }
        Ok(Err(e)) => {
            acc.violation(None, case("strict pp error but incomplete ok"), format!("strict: {} but incomplete: Ok", err_sig(&e)));
        }
        Err(p) => {
            acc.class("strict-panic");
            let _ = p; // C08's business
        }
    }
}

pub fn build(tier: Tier) -> Check<'static> {
    let mut c = Check::new("C15", tier, "6/C15");
    c.rule = "every enumerated source is parsed in both modes; non-trivial = strict accepts (trees compared, 4 junk suffixes appended and 7 glued to the last token) or incomplete returns a proper prefix; distinct by source hash".into();
    c.assumptions = vec!["junk suffixes are texts no description can start with or be completed by: \\x01, ), ], \\x7f, and (glued only) é, ééé x, 世".into()];
    let seeds = Arc::new(corpus::load());
    {
        let s = seeds.clone();
        c.parts.push(Part::new("seeds", s.len() as u64, "each seed in its grammar, plus 4 junk suffixes", move |i, acc| {
            let seed = &s[i as usize];
            one(acc, &seed.text, seed.is_lib(), true, &format!("seed {}", seed.id));
        }));
    }
    {
        let s = seeds.clone();
        c.parts.push(Part::new("seeds-other-grammar", s.len() as u64, "each seed in the other grammar (mostly rejected: incomplete must still not fail)", move |i, acc| {
            let seed = &s[i as usize];
            one(acc, &seed.text, !seed.is_lib(), false, &format!("seed {} (other grammar)", seed.id));
        }));
    }
    {
        // every seed truncated at every token boundary (quick: seeds < 300 bytes)
        let s = seeds.clone();
        let lim = tier.pick(300, 100000);
        let mut table = vec![];
        for (si, seed) in s.iter().enumerate() {
            if seed.text.len() >= lim {
                continue;
            }
            if let Some((_, lay)) = crate::props::c01::layout_of(&seed.text, seed.is_lib()) {
                for k in 0..lay.toks.len() {
                    table.push((si, k));
                }
            }
        }
        let table = Arc::new(table);
        c.parts.push(Part::new("seeds-truncated", table.len() as u64, "each seed (quick: < 300 bytes) cut after each of its tokens", move |i, acc| {
            let (si, k) = table[i as usize];
            let seed = &s[si];
            let Some((text, lay)) = crate::props::c01::layout_of(&seed.text, seed.is_lib()) else { return };
            let cut = &text[..lay.toks[k].1];
            one(acc, cut, seed.is_lib(), false, &format!("seed {} cut after token {}", seed.id, k));
        }));
    }
    {
        // the mode is chosen by a flag of every entry point: file, string and two-step routes, with
        // ignore_include off and on, must all run the incomplete parser when asked to
        let lim = tier.pick(300, 1 << 30);
        let mut table: Vec<(usize, usize)> = vec![];
        for (si, seed) in seeds.iter().enumerate() {
            if seed.text.len() >= lim || seed.text.contains("`include") {
                continue;
            }
            if let Some((_, lay)) = crate::props::c01::layout_of(&seed.text, seed.is_lib()) {
                for k in (0..lay.toks.len()).step_by(tier.pick(7, 2)) {
                    table.push((si, k));
                }
            }
        }
        let table = Arc::new(table);
        let s = seeds.clone();
        c.parts.push(Part::new("entry-points", table.len() as u64, "cut seeds (quick: every 7th cut) through parse_sv / parse_lib (file), the _str and the two-step routes x ignore_include, allow_incomplete = true: never Error::Parse, the same tree as parse_*_str gives", move |i, acc| {
            let (si, k) = table[i as usize];
            let seed = &s[si];
            let lib = seed.is_lib();
            let Some((text, lay)) = crate::props::c01::layout_of(&seed.text, lib) else { return };
            let cut = &text[..lay.toks[k].1];
            let file = api::thread_dir("C15").join("ep_top.sv");
            if std::fs::write(&file, cut).is_err() {
                return;
            }
            let d = api::Defs::new();
            let incs: Vec<std::path::PathBuf> = vec![];
            let reference = match api::parse_simple(cut, lib, true) {
                Ok(Ok((t, _))) => tree::skeleton_full(&t),
                _ => return, // judged by the part seeds-truncated
            };
            acc.nontrivial += 1;
            for ignore in [false, true] {
                let two = match api::pp_str(cut, &file, &d, &incs, ignore, false) {
                    Err(p) => Err(p),
                    Ok(Err(e)) => Ok(Err(e)),
                    Ok(Ok((pt, dd))) => api::guarded(|| if lib { sv_parser::parse_lib_pp(pt, dd, true) } else { sv_parser::parse_sv_pp(pt, dd, true) }),
                };
                let routes: Vec<(&str, api::ParseResult)> = vec![
                    ("file", if lib { api::parse_lib_file(&file, &d, &incs, ignore, true) } else { api::parse_sv_file(&file, &d, &incs, ignore, true) }),
                    ("string", if lib { api::parse_lib_str(cut, &file, &d, &incs, ignore, true) } else { api::parse_sv_str(cut, &file, &d, &incs, ignore, true) }),
                    ("two-step", two),
                ];
                for (route, r) in routes {
                    acc.transitions += 1;
                    acc.traces += 1;
                    let case = json!({"seed": seed.id, "cut_after_token": k, "route": route, "ignore_include": ignore, "lib": lib, "source": clip(cut, 2000)});
                    match r {
                        Ok(Ok((t, _))) => {
                            if tree::skeleton_full(&t) != reference {
                                acc.class("violation");
                                acc.violation(None, case, format!("seed {} cut after token {}: the {} route (ignore_include = {}) yields another tree than parse_*_str in incomplete mode", seed.id, k, route, ignore));
                            } else {
                                acc.class("incomplete-tree");
                            }
                        }
                        Ok(Err(e)) => {
                            acc.class("violation");
                            acc.violation(None, case, format!("seed {} cut after token {}: the {} route (ignore_include = {}) with allow_incomplete = true returns {}", seed.id, k, route, ignore, err_sig(&e)));
                        }
                        Err(pn) => {
                            acc.class("violation");
                            acc.violation(None, case, format!("panic {}", pn));
                        }
                    }
                }
            }
            let _ = std::fs::remove_file(&file);
        }));
    }
    {
        let sp = soup::sigma_t(0, tier.pick(3, 4));
        c.parts.push(Part::new("token-soup", sp.len(), "all token soups <= 3 (quick) / 4 (thorough)", move |i, acc| {
            one(acc, &sp.get(i), false, true, "token soup");
        }));
    }
    {
        let sp = soup::sigma_t(0, tier.pick(2, 3));
        c.parts.push(Part::new("token-soup-lib", sp.len(), "token soups through the library grammar", move |i, acc| {
            one(acc, &sp.get(i), true, false, "token soup (lib)");
        }));
    }
    {
        let sp = crate::engines::kwprogs::programs(0, tier.pick(3, 4));
        c.parts.push(Part::new("keyword-regions", sp.len(), "every sequence of <= 3 (quick) / 4 (thorough) segments from {`begin_keywords x3 versions, `end_keywords, 4 probe modules}, unclosed and unbalanced regions included", move |i, acc| {
            let src = crate::engines::kwprogs::render(&sp.get(i));
            one(acc, &src, false, false, "keyword-region program");
        }));
    }
    {
        let sp = crate::props::c02::sentence_texts();
        let pre: [&'static str; 3] = ["", "\n// c\n", " /* c */ `timescale 1ns/1ps\n"];
        c.parts.push(Part::new("grammar-sentences", sp.len() * 3, "every sentence of the C02 reference-grammar enumeration behind 3 leading trivia forms (none, newline + comment, comment + kept directive), plus junk suffixes", move |i, acc| {
            let s = format!("{}{}", pre[(i % 3) as usize], sp.get(i / 3));
            one(acc, &s, false, i % 3 == 0, "reference grammar sentence");
        }));
    }
    {
        let sp = crate::props::c01::lib_sentences(tier.pick(2, 3));
        c.parts.push(Part::new("lib-sentences", sp.len(), "library-map sentences plus junk", move |i, acc| {
            one(acc, &sp.get(i), true, true, "library sentence");
        }));
    }
    c
}
