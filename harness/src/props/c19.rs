//! C19 — concurrent calls on different threads do not interfere.

use crate::core::run::{Acc, Check, Part, Tier};
use crate::engines::sched::{self, Execution};
use crate::util::api::{self, defs_sig, err_sig, Defs};
use crate::util::tree;
use serde_json::json;
use std::path::{Path, PathBuf};
use std::sync::Arc;

type Body = Arc<dyn Fn() -> String + Send + Sync>;

pub const INPUTS: [(&str, &str, u8); 14] = [
    ("T1 parse: open 1364-2001 region using logic/do as identifiers", "`begin_keywords \"1364-2001\"\nmodule a; reg logic; wire do; endmodule\n`end_keywords\nmodule a2; logic l; endmodule\n", 0),
    ("T2 parse: logic as net name (must fail)", "module b; wire logic; endmodule\n", 0),
    ("T3 preprocess: function-like macros and conditionals", "`define F(x, y) x + y\n`ifdef A\n`F(1, 2)\n`else\n`F(3, (4, 5)) /* c */\n`endif\n`define G `F(a, b)\n`G\n", 1),
    ("T4 parse: same text as T1", "`begin_keywords \"1364-2001\"\nmodule a; reg logic; wire do; endmodule\n`end_keywords\nmodule a2; logic l; endmodule\n", 0),
    ("T5 parse_lib", "library l a.v, b.v -incdir c;\ninclude d.map;\n", 2),
    ("T6 parse: directives between tokens and a define used in text", "`define W 3\nmodule c; `timescale 1ns/1ps\n wire [`W:0] w; // c\nendmodule\n", 0),
    ("T7 preprocess: include resolved through include path A", "`define P 1\nbefore\n`include \"c19_common.svh\"\nafter `WIDTH\n", 3),
    ("T8 preprocess: the same include name resolved through include path B", "x\n`include \"c19_common.svh\"\ny `WIDTH\n", 4),
    ("T9 parse: SystemVerilog keywords first, then a 1364-2001 region that is never closed", "module d; logic l; always_comb l = 1; endmodule\n`begin_keywords \"1364-2001\"\nmodule d2; reg logic; endmodule\n", 0),
    ("T11 parse with allow_incomplete: a comment header, one good and one broken description", "// header\n/* c */\nmodule e; endmodule\nmodule f; wire ; endmodule\n", 6),
    ("T12 parse_lib with allow_incomplete: a broken second declaration", "// header\nlibrary l a.v;\nlibrary ;\n", 7),
    ("T13 preprocess: a macro used three times", "`define WIDTH 4\na `WIDTH b `WIDTH c `WIDTH\n", 1),
    ("T14 preprocess: the same macro name at the same place of the same file label, another text", "`define WIDTH 8\nx `WIDTH y `WIDTH z `WIDTH\n", 1),
    ("T10 preprocess_str, then parse_sv_pp of its output (two calls): same text as T9", "module d; logic l; always_comb l = 1; endmodule\n`begin_keywords \"1364-2001\"\nmodule d2; reg logic; endmodule\n", 5),
];

fn body(k: usize) -> Body {
    Arc::new(move || {
        let (_, text, kind) = INPUTS[k];
        let d = Defs::new();
        let incs: Vec<PathBuf> = vec![];
        let path = Path::new("top.sv");
        let incs: Vec<PathBuf> = match kind {
            3 => vec![inc_dir("a")],
            4 => vec![inc_dir("b")],
            _ => incs,
        };
        match kind {
            5 => match api::pp_str(text, path, &d, &incs, false, false) {
                Err(p) => format!("PANIC {}", p),
                Ok(Err(e)) => format!("ERR {}", err_sig(&e)),
                Ok(Ok((pt, dd))) => match api::guarded(|| sv_parser::parse_sv_pp(pt, dd, false)) {
                    Err(p) => format!("PANIC {}", p),
                    Ok(Err(e)) => format!("ERR {}", err_sig(&e)),
                    Ok(Ok((t, dd))) => format!("OK {} {:?}", tree::skeleton_full(&t), defs_sig(&dd, true, false)),
                },
            },
            1 | 3 | 4 => match api::pp_str(text, path, &d, &incs, false, false) {
                Err(p) => format!("PANIC {}", p),
                Ok(Err(e)) => format!("ERR {}", err_sig(&e)),
                Ok(Ok((pt, dd))) => format!("OK {:?} {:?}", pt.text(), defs_sig(&dd, true, false)),
            },
            _ => {
                let r = match kind {
                    2 => api::parse_lib_str(text, path, &d, &incs, false, false),
                    6 => api::parse_sv_str(text, path, &d, &incs, false, true),
                    7 => api::parse_lib_str(text, path, &d, &incs, false, true),
                    _ => api::parse_sv_str(text, path, &d, &incs, false, false),
                };
                match r {
                    Err(p) => format!("PANIC {}", p),
                    Ok(Err(e)) => format!("ERR {}", err_sig(&e)),
                    Ok(Ok((t, dd))) => format!("OK {} {:?}", tree::skeleton_full(&t), defs_sig(&dd, true, false)),
                }
            }
        }
    })
}

fn inc_dir(which: &str) -> PathBuf {
    crate::core::run::verif_dir().join(".work").join("C19").join(format!("inc_{}", which))
}

fn f_coarse(n: &'static str) -> bool {
    !matches!(n, "white_space" | "memo_get" | "memo_insert")
}
fn f_fine(n: &'static str) -> bool {
    !matches!(n, "memo_get" | "memo_insert")
}
fn f_all(_: &'static str) -> bool {
    true
}

struct Combo {
    threads: Vec<usize>,
    bound: usize,
    filter: fn(&'static str) -> bool,
    filter_name: &'static str,
    max: u64,
}

fn explore_combo(acc: &mut Acc, c: &Combo, solo: &[String]) {
    let bodies: Vec<Body> = c.threads.iter().map(|k| body(*k)).collect();
    let names: Vec<&str> = c.threads.iter().map(|k| INPUTS[*k].0).collect();
    let mut outcomes: std::collections::BTreeSet<Vec<String>> = Default::default();
    let mut bad = 0u64;
    let mut first_bad: Option<(Vec<usize>, Vec<String>)> = None;
    let mut dead: Option<String> = None;
    let threads = c.threads.clone();
    let mut check = |choices: &[usize], x: &Execution<String>| {
        if let Some(d) = &x.dead {
            dead = Some(d.clone());
            return;
        }
        let mut ok = true;
        for (i, r) in x.results.iter().enumerate() {
            if *r != solo[threads[i]] {
                ok = false;
            }
        }
        outcomes.insert(x.results.iter().map(|r| crate::util::api::clip(r, 60)).collect());
        if !ok {
            bad += 1;
            if first_bad.is_none() {
                first_bad = Some((choices.to_vec(), x.results.clone()));
            }
        }
    };
    let ex = sched::explore(&bodies, c.bound, c.filter, 200_000, c.max, &mut check);
    acc.transitions += ex.points;
    acc.traces += ex.schedules;
    acc.nontrivial += ex.with_foreign_state_open;
    acc.count("schedules", ex.schedules);
    acc.count("scheduling points executed", ex.points);
    acc.count("schedules in which is_keyword/white_space ran while another thread's keyword/directive stack was open", ex.with_foreign_state_open);
    acc.count("distinct outcome vectors", outcomes.len() as u64);
    if ex.capped {
        acc.count("combinations stopped at the schedule cap", 1);
    }
    acc.sample(|| json!({"threads": names, "preemption_bound": c.bound, "points": c.filter_name, "schedules": ex.schedules, "longest_schedule": ex.max_points, "interference_window_schedules": ex.with_foreign_state_open}));
    if let Some(d) = dead {
        acc.class("violation");
        acc.violation(None, json!({"threads": names}), format!("scheduler: {}", d));
        return;
    }
    if let Some((choices, results)) = first_bad {
        // replay the schedule twice: same schedule must fail every time
        let r1 = sched::run(&bodies, &choices, c.filter, 200_000);
        let r2 = sched::run(&bodies, &choices, c.filter, 200_000);
        let stable = r1.results == results && r2.results == results;
        acc.class("violation");
        let mut diff = String::new();
        for (i, r) in results.iter().enumerate() {
            if *r != solo[c.threads[i]] {
                diff.push_str(&format!("\nthread {} ({}):\n  concurrent: {}\n  alone:      {}", i, names[i], crate::util::api::clip(r, 300), crate::util::api::clip(&solo[c.threads[i]], 300)));
            }
        }
        let sw: Vec<(usize, usize)> = choices.iter().enumerate().filter(|(_, c)| **c != 0).map(|(i, c)| (i, *c)).collect();
        acc.violation(None, json!({"threads": names, "preemption_bound": c.bound, "points": c.filter_name, "schedule_nonzero_choices": sw, "schedule_length": choices.len(), "replayed_twice_identically": stable}), format!("{} of {} schedules give a result that differs from the solo result (replayed twice identically: {}); first one switches at {:?}{}", bad, ex.schedules, stable, sw, diff));
    } else {
        acc.class("all-schedules-equal-solo");
    }
}

pub fn build(tier: Tier) -> Check<'static> {
    let mut c = Check::new("C19", tier, "6/C19");
    c.rule = "2 and 3 real OS threads, one call each, inputs chosen to collide (open keyword region vs a text that must fail under the default set, in-directive white-space mode, same text twice, library grammar, a text that ends inside an unclosed keyword region - as one call and as preprocess_str followed by parse_sv_pp -, two threads resolving one include name through different paths, strict and allow_incomplete calls side by side); all schedules with <= 1 (quick) / 2 (thorough) preemptions at the library's hook points, every execution run to completion and compared with the solo results; states = scheduling points executed, traces = complete schedules; non-trivial = schedules in which a keyword/white-space decision of one thread ran while another thread's keyword or directive stack was open".into();
    c.assumptions = vec![
        "interference is observable at the granularity of the hook points (token level); data races inside unsafe code are not modelled".into(),
        "a free-running pass (16 threads x 200 calls) is appended as a sampling sanity check of the scheduler itself; it is not the verdict".into(),
    ];
    for (w, width) in [("a", "8"), ("b", "32")] {
        let d = inc_dir(w);
        let _ = std::fs::create_dir_all(&d);
        std::fs::write(d.join("c19_common.svh"), format!("`define WIDTH {}\nfrom_{}\n", width, w)).expect("write include");
    }
    let solo: Arc<Vec<String>> = Arc::new((0..INPUTS.len()).map(|k| std::thread::spawn(move || body(k)()).join().unwrap()).collect());
    let mut combos: Vec<Combo> = vec![];
    let q = tier == Tier::Quick;
    for pair in [[0usize, 1], [1, 0], [0, 2], [2, 0], [1, 2], [0, 3], [0, 4], [2, 5], [5, 0], [6, 7], [7, 6], [6, 2], [8, 1], [1, 8], [8, 2], [2, 8], [13, 1], [1, 13], [8, 8], [11, 12], [12, 11], [9, 1], [1, 9], [9, 4], [10, 4], [4, 10], [9, 10]] {
        combos.push(Combo { threads: pair.to_vec(), bound: 1, filter: f_fine, filter_name: "all hooks except memo", max: 50_000 });
    }
    combos.push(Combo { threads: vec![0, 1], bound: 1, filter: f_all, filter_name: "all hooks incl. memo get/insert", max: 50_000 });
    combos.push(Combo { threads: vec![0, 1, 2], bound: 1, filter: f_coarse, filter_name: "stack / keyword hooks", max: 50_000 });
    if !q {
        combos.push(Combo { threads: vec![0, 1], bound: 2, filter: f_coarse, filter_name: "stack / keyword hooks", max: 400_000 });
        combos.push(Combo { threads: vec![1, 0], bound: 2, filter: f_coarse, filter_name: "stack / keyword hooks", max: 400_000 });
        combos.push(Combo { threads: vec![0, 2], bound: 2, filter: f_coarse, filter_name: "stack / keyword hooks", max: 400_000 });
        combos.push(Combo { threads: vec![0, 1, 2], bound: 2, filter: f_coarse, filter_name: "stack / keyword hooks", max: 400_000 });
        combos.push(Combo { threads: vec![0, 1], bound: 3, filter: f_coarse, filter_name: "stack / keyword hooks", max: 400_000 });
    }
    let combos = Arc::new(combos);
    let n = combos.len() as u64;
    {
        let (cs, solo) = (combos.clone(), solo.clone());
        // serial: every thread of the process that calls the library must be under the scheduler
        c.parts.push(Part::new("schedules", n, "one index = one thread combination explored exhaustively under its preemption bound", move |i, acc| explore_combo(acc, &cs[i as usize], &solo)).serial());
    }
    {
        let solo = solo.clone();
        c.parts.push(
            Part::new("free-running-sanity", 1, "16 OS threads x 200 calls each without the scheduler (sampling, not a verdict)", move |_, acc| {
                let hs: Vec<_> = (0..16)
                    .map(|t| {
                        let solo = solo.clone();
                        std::thread::Builder::new().stack_size(64 << 20).spawn(move || {
                            let mut bad = 0;
                            for r in 0..200 {
                                let k = (t + r) % INPUTS.len();
                                if body(k)() != solo[k] {
                                    bad += 1;
                                }
                            }
                            bad
                        }).unwrap()
                    })
                    .collect();
                let bad: usize = hs.into_iter().map(|h| h.join().unwrap()).sum();
                acc.transitions += 3200;
                if bad > 0 {
                    acc.class("violation");
                    acc.violation(None, json!({"free_running": true}), format!("free-running threads: {} of 3200 calls returned something else than the solo result", bad));
                } else {
                    acc.class("free-running-clean");
                }
            })
            .serial(),
        );
    }
    c
}
