//! C04 — conditional compilation selects exactly the IEEE 22.6 branch.
use crate::core::run::{Check, Part, Tier};
use crate::props::pp::{self, Oracles};

pub fn build(tier: Tier) -> Check<'static> {
    let mut c = Check::new("C04", tier, "6/C04");
    c.rule = "every program = [prefix define/undef/undefineall] marker chain marker probes, chain = `ifdef|`ifndef over names {A, B, __LINE__} with 0-2 `elsif and optional `else, branch bodies of 0-1 items from {text, define, undef, define without body, usage of an undefined macro, include of a missing file, comments}, plus chains whose taken/dead branch holds a nested chain; x 5 initial tables x layouts; plus macros whose text holds directives (executed when the macro is used); non-trivial = model and implementation both produce output or both an error, distinct by construction".into();
    c.assumptions = vec!["reference preprocessor models/ppref.rs (first true branch, table threaded, predefined names)".into()];
    let sp = pp::cond_profile(tier == Tier::Quick, true);
    let or = Oracles { lexemes: true, ..Default::default() };
    c.parts.push(Part::new("cond-profile", sp.len(), "conditional profile", move |i, acc| {
        pp::check_prog(acc, &sp.get(i), or, "conditional profile");
    }));
    let sp = pp::directive_body_profile();
    let or = Oracles { lexemes: true, table: true, ..Default::default() };
    c.parts.push(Part::new("directive-bodies", sp.len(), "8 macro texts holding `undef / `undefineall / `define / conditional chains (macro from the source or from the caller) x 4 prefixes x usage before the chain or inside its then / `elsif / `else branch x chain forms x 2 layouts: tokens and returned table", move |i, acc| {
        pp::check_prog(acc, &sp.get(i), or, "directive bodies");
    }));
    c
}
