//! C12 — trivia between tokens never alters the parse.

use crate::core::run::{Acc, Check, Part, Tier};
use crate::corpus;
use crate::util::api::{self, clip, fnv};
use crate::util::layout::Layout;
use crate::util::tree;
use serde_json::json;
use std::sync::Arc;

pub const FORMS: [&str; 17] = [
    " ",
    "  ",
    "\t",
    "\n",
    "\r\n",
    "\u{c}",
    "/*c*/",
    "//c\n",
    " `celldefine ",
    " `endcelldefine\n",
    "`default_nettype wire\n",
    " `timescale 1ns/1ps ",
    "`unconnected_drive pull0 ",
    " `nounconnected_drive ",
    "`line 1 \"f\" 0\n",
    "`define V__ 1\n`undef V__\n",
    "`define W__ a \\\r\n b \\\r\n c\r\n`undef W__\r\n",
];

struct Base {
    text: String,
    lay: Layout,
    skel: String,
    /// offsets at which a top-level description starts
    descr: Vec<usize>,
}

fn base_of(src: &str, lib: bool) -> Option<Base> {
    let (t, _) = api::parse_simple(src, lib, false).ok()?.ok()?;
    let ix = tree::index(&t).ok()?;
    let text = tree::text_from_leaves(&t, &ix)?;
    let lay = crate::util::layout::layout(&ix, text.len());
    let skel = tree::skeleton_nows(&t);
    let descr = ix
        .nodes
        .iter()
        .filter(|n| n.depth == 1 && n.kind == "Description" && n.first_leaf < n.leaf_end)
        .map(|n| ix.leaves[n.first_leaf].0.offset)
        .collect();
    Some(Base { text, lay, skel, descr })
}

fn form_for(lay: &Layout, text: &str, k: usize, form: &str, lib: bool) -> String {
    // in the library-map grammar a bare file path runs up to the next white space, like an
    // escaped identifier does
    if lib && !form.starts_with(|c: char| c.is_ascii_whitespace()) {
        return format!(" {}", form);
    }
    // the blank that ends an escaped identifier belongs to that token
    if k > 0 {
        let (b, _) = lay.toks[k - 1];
        let (_, e) = lay.toks[k - 1];
        // ... and a '/' token directly followed by a comment would lex as a different comment
        // (a form that itself starts with white space ends the identifier just as well)
        if (text[b..].starts_with('\\') && !form.starts_with(|c: char| c.is_ascii_whitespace())) || (text[..e].ends_with('/') && form.starts_with('/')) {
            return format!(" {}", form);
        }
    }
    form.to_string()
}

fn judge(acc: &mut Acc, base: &Base, mutated: &str, lib: bool, form: &str, what: &str) {
    acc.transitions += 1;
    let case = || json!({"what": what, "lib": lib, "trivia": form, "source": clip(mutated, 2000)});
    let ff = form.contains('\u{c}');
    // known-finding signature for the form feed: the same mutation with a blank in place of
    // every form feed must behave correctly, i.e. the form feed is the only thing that fails
    let sig = |acc: &mut Acc| -> Option<String> {
        if !ff {
            // failure attributable to the known memo defect (P10)?
            acc.transitions += 1;
            return if api::unbounded_memo_gives(mutated, lib, &base.skel) { Some(api::memo_sig_for(mutated)) } else { None };
        }
        acc.transitions += 1;
        let blanked = mutated.replace('\u{c}', " ");
        match api::parse_simple(&blanked, lib, false) {
            Ok(Ok((t, _))) if tree::skeleton_nows(&t) == base.skel => Some("form-feed-not-accepted-as-white-space".to_string()),
            _ => None,
        }
    };
    match api::parse_simple(mutated, lib, false) {
        Ok(Ok((t, _))) => {
            acc.traces += 1;
            let got = tree::skeleton_nows(&t);
            if got != base.skel {
                acc.class("violation");
                let s = sig(acc);
                acc.violation(s, case(), format!("trivia {:?} changed the tree\noriginal: {}\nmutated:  {}\nsource: {:?}", form, clip(&base.skel, 500), clip(&got, 500), clip(mutated, 600)));
            } else {
                acc.class("same-tree");
            }
        }
        Ok(Err(e)) => {
            acc.class("violation");
            let s = sig(acc);
            acc.violation(s, case(), format!("accepted source is rejected ({}) after replacing whitespace by {:?}\nsource: {:?}", api::err_sig(&e), form, clip(mutated, 600)));
        }
        Err(p) => {
            acc.class("violation");
            acc.violation(None, case(), format!("panic {} after replacing whitespace by {:?}\nsource: {:?}", p, form, clip(mutated, 600)));
        }
    }
}

pub fn build(tier: Tier) -> Check<'static> {
    let mut c = Check::new("C12", tier, "6/C12");
    c.rule = "accepted seed or default sentence of a reference-grammar rule x trivia form x (all plain gaps at once | each single plain gap | `resetall before each top-level description, followed by a line end or by each trivia form); rejected mutants must stay rejected; non-trivial = mutated source differs from the original, distinct by hash".into();
    c.assumptions = vec![
        "gaps containing a compiler directive and gaps inside directives are left alone".into(),
        "the blank terminating an escaped identifier is treated as part of that token".into(),
    ];
    let mut seeds = corpus::load();
    {
        // the default sentence of every reference-grammar rule (ids from 100000)
        let g = crate::engines::svgen::Gen::new(crate::engines::svgen::grammar_text());
        for (k, (rule, items)) in g.rule_defaults().into_iter().enumerate() {
            seeds.push(corpus::Seed { id: 100_000 + k, kind: format!("sv grammar:{}", rule), text: crate::engines::svgen::render(&items, " ", 0).text });
        }
    }
    let seeds = Arc::new(seeds);
    let nf = FORMS.len();
    {
        let s = seeds.clone();
        c.parts.push(Part::new("all-gaps", (s.len() * nf) as u64, "each accepted seed with all plain non-empty gaps replaced by one of 17 trivia forms", move |i, acc| {
            let seed = &s[(i as usize) / nf];
            let form = FORMS[(i as usize) % nf];
            let Some(base) = base_of(&seed.text, seed.is_lib()) else {
                acc.class("seed-not-accepted");
                return;
            };
            let m = base.lay.render(&base.text, |k, g| if g.plain && g.end > g.start { Some(form_for(&base.lay, &base.text, k, form, seed.is_lib())) } else { None });
            if m != base.text {
                acc.distinct(fnv(m.as_bytes()));
            }
            acc.sample(|| json!({"seed": seed.id, "trivia": form, "mutated": clip(&m, 160)}));
            judge(acc, &base, &m, seed.is_lib(), form, &format!("seed {} all gaps", seed.id));
        }));
    }
    {
        let s = seeds.clone();
        c.parts.push(Part::new("resetall", s.len() as u64, "`resetall placed before every top-level description of each accepted seed (all at once and one at a time)", move |i, acc| {
            let seed = &s[i as usize];
            if seed.is_lib() {
                return;
            }
            let Some(base) = base_of(&seed.text, false) else { return };
            let mut variants: Vec<Vec<usize>> = vec![base.descr.clone()];
            for d in &base.descr {
                variants.push(vec![*d]);
            }
            for v in variants {
                if v.is_empty() {
                    continue;
                }
                let mut m = String::new();
                let mut last = 0;
                for p in &v {
                    m.push_str(&base.text[last..*p]);
                    m.push_str("`resetall\n");
                    last = *p;
                }
                m.push_str(&base.text[last..]);
                acc.distinct(fnv(m.as_bytes()));
                // the skeleton gains one ResetallCompilerDirective description per insertion: compare
                // acceptance and the skeleton with those descriptions filtered out
                acc.transitions += 1;
                match api::parse_simple(&m, false, false) {
                    Ok(Ok((t, _))) => {
                        acc.traces += 1;
                        let got = strip_resetall(&tree::skeleton_nows(&t));
                        let want = strip_resetall(&base.skel);
                        if got != want {
                            acc.class("violation");
                            acc.violation(None, json!({"seed": seed.id, "source": clip(&m, 2000)}), format!("`resetall between descriptions changed the tree\noriginal: {}\nmutated:  {}\nsource: {:?}", clip(&want, 500), clip(&got, 500), clip(&m, 600)));
                        } else {
                            acc.class("same-tree");
                        }
                    }
                    Ok(Err(e)) => {
                        acc.class("violation");
                        acc.violation(None, json!({"seed": seed.id, "source": clip(&m, 2000)}), format!("rejected ({}) after placing `resetall between descriptions\nsource: {:?}", api::err_sig(&e), clip(&m, 600)));
                    }
                    Err(p) => {
                        acc.class("violation");
                        acc.violation(None, json!({"seed": seed.id, "source": clip(&m, 2000)}), format!("panic {}", p));
                    }
                }
            }
        }));
    }
    {
        // `resetall is a description of its own in the SystemVerilog grammar: the trivia that follows
        // it is owned by the directive's keyword, not by a token of the surrounding construct
        let s = seeds.clone();
        c.parts.push(Part::new("resetall-trivia", (s.len() * nf) as u64, "`resetall before every top-level description of each accepted seed, followed by each of the 17 trivia forms instead of a line end", move |i, acc| {
            let seed = &s[(i as usize) / nf];
            let form = FORMS[(i as usize) % nf];
            if seed.is_lib() {
                return;
            }
            let Some(base) = base_of(&seed.text, false) else { return };
            if base.descr.is_empty() {
                return;
            }
            let with = |ins: &str| {
                let mut m = String::new();
                let mut last = 0;
                for p in &base.descr {
                    m.push_str(&base.text[last..*p]);
                    m.push_str(ins);
                    last = *p;
                }
                m.push_str(&base.text[last..]);
                m
            };
            // reference: the line-end form, which the "resetall" part compares with the original
            let Some(base2) = base_of(&with("`resetall\n"), false) else {
                acc.class("reference-form-rejected (reported by part resetall)");
                return;
            };
            let sep = if form.starts_with(|c: char| c.is_ascii_whitespace() || c == '/') { "" } else { " " };
            let m = with(&format!("`resetall{}{}", sep, form));
            acc.distinct(fnv(m.as_bytes()));
            judge(acc, &base2, &m, false, form, &format!("seed {} `resetall followed by the trivia form", seed.id));
        }));
    }
    {
        // `resetall does not touch text macros (IEEE 22.3): sources whose descriptions share macros
        let templates: Vec<(&'static str, Vec<(&'static str, Option<&'static str>)>)> = vec![
            ("`define W 8\n{R}module a; wire [`W-1:0] x; endmodule\n{R}module b; wire [`W-1:0] y; endmodule\n{R}", vec![]),
            ("`define F\n{R}module a; endmodule\n{R}`ifdef F\nmodule f; wire f; endmodule\n`else\nmodule s; wire s; endmodule\n`endif\n{R}", vec![]),
            ("{R}module a; wire [`W-1:0] x; endmodule\n{R}`ifndef G\nmodule g; endmodule\n`endif\n{R}", vec![("W", Some("4")), ("G", None)]),
            ("`ifndef GUARD\n`define GUARD\nmodule once; endmodule\n`endif\n{R}`ifndef GUARD\n`define GUARD\nmodule twice; endmodule\n`endif\n{R}module c; endmodule\n", vec![]),
            ("`define M(x) wire x;\nmodule a; `M(p) endmodule\n{R}`undef M\n`define M(x) reg x;\n{R}module b; `M(q) endmodule\n{R}", vec![]),
            ("`begin_keywords \"1364-2001\"\n`define L logic\nmodule a; reg `L; endmodule\n{R}module b; wire `L; endmodule\n`end_keywords\n{R}module c; `L v; endmodule\n", vec![]),
        ];
        let inserts: Vec<String> = std::iter::once("`resetall\n".to_string()).chain(FORMS.iter().map(|f| format!("`resetall{}{}", if f.starts_with(|c: char| c.is_ascii_whitespace() || c == '/') { "" } else { " " }, f))).collect();
        let ni = inserts.len();
        let n = templates.len() * 8 * ni;
        c.parts.push(Part::new("resetall-and-macros", n as u64, "6 sources whose descriptions share text macros (object-like, function-like, redefined, include-guard style, caller-supplied, inside a keyword region) x every non-empty subset of their 2-3 inter-description positions x `resetall followed by a line end or one of the 17 trivia forms: same acceptance and tree as without", move |i, acc| {
            let i = i as usize;
            let (tpl, pre) = &templates[i / (8 * ni)];
            let mask = (i / ni) % 8;
            let ins = &inserts[i % ni];
            let slots = tpl.matches("{R}").count();
            if mask == 0 || mask >= (1 << slots) {
                return;
            }
            let mut k = 0;
            let mut src = String::new();
            let mut plain = String::new();
            for piece in tpl.split("{R}") {
                src.push_str(piece);
                plain.push_str(piece);
                if k < slots {
                    if mask & (1 << k) != 0 {
                        src.push_str(ins);
                        // a form that does not end its line would share the line with the next directive
                        if !ins.ends_with('\n') {
                            src.push('\n');
                        }
                    }
                    k += 1;
                }
            }
            let defs = api::mk_defs(&pre.iter().map(|(a, b)| (*a, *b)).collect::<Vec<_>>());
            let run = |t: &str| api::parse_sv_str(t, std::path::Path::new("top.sv"), &defs, &[] as &[std::path::PathBuf], false, false);
            acc.transitions += 2;
            acc.traces += 1;
            acc.distinct(fnv(src.as_bytes()));
            let case = json!({"source": src, "without_resetall": plain, "predefined": pre.iter().map(|(a, b)| format!("{}={:?}", a, b)).collect::<Vec<_>>()});
            let want = match run(&plain) {
                Ok(Ok((t, _))) => strip_resetall(&tree::skeleton_nows(&t)),
                _ => {
                    acc.violation(None, case, "internal: the template without `resetall is not accepted".into());
                    return;
                }
            };
            let ff = ins.contains('\u{c}');
            match run(&src) {
                Ok(Ok((t, _))) => {
                    let got = strip_resetall(&tree::skeleton_nows(&t));
                    if got != want {
                        acc.class("violation");
                        acc.violation(None, case, format!("`resetall between descriptions changed the tree\nwithout: {}\nwith:    {}\nsource: {:?}", clip(&want, 500), clip(&got, 500), src));
                    } else {
                        acc.class("same-tree");
                    }
                }
                Ok(Err(e)) => {
                    acc.class("violation");
                    // (form feed: the known finding, recognised by the same source with blanks instead)
                    let sig = if ff && matches!(run(&src.replace('\u{c}', " ")), Ok(Ok((ref t, _))) if strip_resetall(&tree::skeleton_nows(t)) == want) { Some("form-feed-not-accepted-as-white-space".to_string()) } else { None };
                    acc.violation(sig, case, format!("rejected ({}) after placing `resetall between descriptions\nsource: {:?}", api::err_sig(&e), src));
                }
                Err(p) => {
                    acc.class("violation");
                    acc.violation(None, case, format!("panic {}", p));
                }
            }
        }));
    }
    {
        // keyword reservation must survive `resetall / any neutral trivia: rejected programs stay rejected
        let probes: Vec<&'static str> = vec![
            "module module; endmodule\n",
            "module a; wire logic; endmodule\n",
            "module a; wire begin; endmodule\n",
            "module a; initial x = ; endmodule\n",
            "module a; wire w endmodule\n",
            "module a; assign = 1; endmodule\n",
            "module a (input); endmodule\n",
            "module a; function; endfunction endmodule\n",
        ];
        let forms: Vec<String> = FORMS.iter().map(|f| f.to_string()).chain(vec!["`resetall\n".to_string(), "`undefineall\n".to_string(), "`pragma foo\n".to_string(), "`begin_keywords \"1800-2017\"\n`end_keywords\n".to_string()]).collect();
        let nfo = forms.len();
        let n = probes.len() * nfo * nfo;
        c.parts.push(Part::new("rejected-stay-rejected", n as u64, "8 rejected programs (reserved word as identifier, missing token) x every ordered pair of 20 leading trivia / directive forms: must stay rejected", move |i, acc| {
            let i = i as usize;
            let p = probes[i / (nfo * nfo)];
            let f1 = &forms[(i / nfo) % nfo];
            let f2 = &forms[i % nfo];
            let m = format!("{}{}{}", f1, f2, p);
            acc.transitions += 2;
            acc.nontrivial += 1;
            let ff = m.contains('\u{c}');
            match api::parse_simple(p, false, false) {
                Ok(Err(_)) => {}
                _ => {
                    acc.class("violation");
                    acc.violation(None, json!({"source": p}), format!("probe {:?} is not rejected even without trivia", p));
                    return;
                }
            }
            match api::parse_simple(&m, false, false) {
                Ok(Err(_)) => acc.class("still-rejected"),
                Ok(Ok(_)) => {
                    acc.class("violation");
                    let _ = ff;
                    acc.violation(None, json!({"source": m}), format!("rejected program {:?} becomes accepted after prefixing {:?}", p, format!("{}{}", f1, f2)));
                }
                Err(pn) => {
                    acc.class("violation");
                    acc.violation(None, json!({"source": m}), format!("panic {}", pn));
                }
            }
        }));
    }
    {
        // exhaustive small comment shapes as the only separator between tokens
        use crate::core::space::Space;
        let blk = Space::of(vec!["*", "/", "a", " ", "\n"]).seq_range(0, tier.pick(4, 5)).map(|v| v.concat());
        let line = Space::of(vec!["/", "*", "a", " ", "\\", "`"]).seq_range(0, tier.pick(3, 4)).map(|v| v.concat());
        let nb = blk.len();
        let bases: Vec<&'static str> = vec!["module a; wire w; endmodule\n", "module b; assign x = y / z * 2; endmodule\n", "module c; always @(posedge k) begin q <= d; end endmodule\n"];
        let nbase = bases.len() as u64;
        let n = (nb + line.len()) * nbase;
        c.parts.push(Part::new("comment-shapes", n, "3 small programs with every plain gap replaced by every block comment /*s*/ with s over {*,/,a,blank,newline}^<=4 (not containing */) and every line comment //s over {/,*,a,blank,\\,`}^<=3", move |i, acc| {
            let base = bases[(i % nbase) as usize];
            let k = i / nbase;
            let form = if k < nb {
                let body = blk.get(k);
                if body.contains("*/") || body.ends_with('/') && false {
                    acc.class("not-a-single-comment");
                    return;
                }
                // "/*" + body + "*/" must close exactly at the end: body must not end the comment early
                let whole = format!("/*{}*/", body);
                if whole[2..].find("*/") != Some(whole.len() - 4) {
                    acc.class("not-a-single-comment");
                    return;
                }
                whole
            } else {
                format!("//{}\n", line.get(k - nb))
            };
            let Some(b) = base_of(base, false) else { return };
            let m = b.lay.render(&b.text, |kk, g| if g.plain && g.end > g.start { Some(form_for(&b.lay, &b.text, kk, &form, false)) } else { None });
            acc.distinct(fnv(m.as_bytes()));
            judge(acc, &b, &m, false, &form, "comment shape");
        }));
    }
    if tier == Tier::Thorough {
        let s = seeds.clone();
        let mut table: Vec<(usize, usize)> = vec![];
        for (si, seed) in s.iter().enumerate() {
            if let Some(base) = base_of(&seed.text, seed.is_lib()) {
                for (k, g) in base.lay.gaps.iter().enumerate() {
                    if g.plain && g.end > g.start {
                        table.push((si, k));
                    }
                }
            }
        }
        let table = Arc::new(table);
        c.parts.push(Part::new("single-gap", (table.len() * nf) as u64, "each accepted seed x each single plain gap x each of 17 trivia forms", move |i, acc| {
            let (si, k) = table[(i as usize) / nf];
            let form = FORMS[(i as usize) % nf];
            let seed = &s[si];
            let Some(base) = base_of(&seed.text, seed.is_lib()) else { return };
            let m = base.lay.render(&base.text, |kk, _| if kk == k { Some(form_for(&base.lay, &base.text, k, form, seed.is_lib())) } else { None });
            if m != base.text {
                acc.distinct(fnv(m.as_bytes()));
            }
            judge(acc, &base, &m, seed.is_lib(), form, &format!("seed {} gap {}", seed.id, k));
        }));
    }
    c
}

fn strip_resetall(skel: &str) -> String {
    skel.replace("Description ResetallCompilerDirective Symbol '`' Keyword 'resetall' ", "")
}
