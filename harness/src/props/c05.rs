//! C05 — macro usages expand per IEEE 22.5.1 and misuse is reported by name.
use crate::core::run::{Check, Part, Tier};
use crate::props::pp::{self, Oracles};

pub fn build(tier: Tier) -> Check<'static> {
    let mut c = Check::new("C05", tier, "6/C05");
    c.rule = "every program = [definition of B: none | object-like | function-like] definition of A (6 formal lists x every body of <= 2 (quick) / 3 (thorough) tokens of a 13-token alphabet with paste, `\", `\\`\", strings, nested usages, continuation) marker usage-of-A (10 actual-argument forms) marker; plus 22 hand-picked shapes (redefinition between uses, usage inside actuals and bodies, caller-supplied and body-less macros, recursion, brackets/braces/strings with commas); x layouts; plus every ordered pair of definitions of one name followed by a usage; non-trivial as in C04".into();
    c.assumptions = vec!["reference preprocessor models/ppref.rs; surplus actual arguments are outside the statement and skipped; expansions that do not lex make the model abstain".into()];
    let or = Oracles { lexemes: true, ..Default::default() };
    {
        let sp = pp::macro_profile(tier == Tier::Quick);
        c.parts.push(Part::new("macro-profile", sp.len(), "macro profile", move |i, acc| {
            pp::check_prog(acc, &sp.get(i), or, "macro profile");
        }));
    }
    {
        let sp = pp::macro_extra_profile();
        c.parts.push(Part::new("macro-shapes", sp.len(), "hand-picked shapes", move |i, acc| {
            pp::check_prog(acc, &sp.get(i), or, "macro shapes");
        }));
    }
    {
        let sp = pp::directive_body_profile();
        c.parts.push(Part::new("directive-bodies", sp.len(), "macros whose text (or actual argument) holds `undef / `undefineall / `define / conditional chains: the table in force at a later point of use is the one the expansion left behind", move |i, acc| {
            pp::check_prog(acc, &sp.get(i), or, "directive bodies");
        }));
    }
    {
        let sp = pp::redefine_profile();
        c.parts.push(Part::new("redefinitions", sp.len(), "every ordered pair of definitions of one name (8 formal lists x 2 texts; the first from the source or the caller) followed by a usage: the latest definition decides", move |i, acc| {
            pp::check_prog(acc, &sp.get(i), or, "redefinitions");
        }));
    }
    c
}
