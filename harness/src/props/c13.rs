//! C13 — reserved words of the keyword set in force are never identifiers.

use crate::core::run::{Acc, Check, Part, Tier};
use crate::corpus;
use crate::engines::kwprogs::{self, Seg};
use crate::models::kwref;
use crate::util::api::{self, clip, err_sig};
use crate::util::tree::{self, TreeIndex};
use serde_json::json;
use std::collections::HashSet;
use std::sync::Arc;
use sv_parser::{RefNode, SyntaxTree};

/// (name, template with {W}, only an identifier can stand there)
pub const POSITIONS: [(&str, &str, bool); 7] = [
    ("module name", "module {W}; endmodule\n", true),
    ("net name", "module m; wire {W}; endmodule\n", true),
    ("instance name", "module m; sub {W} (); endmodule\n", true),
    ("port name", "module m (input wire {W}); endmodule\n", true),
    ("function name", "module m; function integer {W} (input a); endfunction endmodule\n", true),
    ("parameter name", "module m; parameter integer {W} = 1; endmodule\n", true),
    ("expression operand", "module m; assign x = {W} + 1; endmodule\n", false),
];

pub const NON_KEYWORDS: [&str; 10] = ["foo", "module_x", "end1", "wirex", "Logic", "_begin", "x$y", "i", "endmodule_", "bitx"];

/// invariant (f): no SimpleIdentifier carries a word reserved in the set in force where it stands
pub fn check_tree_identifiers(tree: &SyntaxTree, ix: &TreeIndex) -> Result<usize, String> {
    let mut stack: Vec<HashSet<&'static str>> = vec![];
    let dflt = kwref::set("1800-2017");
    let dir = kwref::set("directive");
    let mut checked = 0;
    let mut i = 0;
    while i < ix.nodes.len() {
        let n = &ix.nodes[i];
        match &n.node {
            RefNode::KeywordsDirective(_) => {
                // version specifier text
                let v = (i..n.end).find(|j| ix.nodes[*j].kind == "VersionSpecifier").and_then(|j| tree.get_str_trim(vec![ix.nodes[j].node.clone()]));
                if let Some(v) = v {
                    if kwref::VERSIONS.contains(&v) {
                        stack.push(kwref::set(v));
                    }
                }
            }
            RefNode::EndkeywordsDirective(_) => {
                stack.pop();
            }
            RefNode::SimpleIdentifier(x) => {
                let t = tree.get_str(&x.nodes.0).unwrap_or("");
                // a macro name (inside a kept `define / `undef) is checked against the directive names
                let in_macro_name = {
                    let mut p = n.parent;
                    let mut hit = false;
                    while let Some(q) = p {
                        if ix.nodes[q].kind == "TextMacroIdentifier" || ix.nodes[q].kind == "TextMacroName" {
                            hit = true;
                            break;
                        }
                        p = ix.nodes[q].parent;
                    }
                    hit
                };
                let inside_directive = n.in_ws;
                if in_macro_name {
                    if dir.contains(t) {
                        return Err(format!("macro name {:?} is a compiler-directive name", t));
                    }
                } else if !inside_directive {
                    let set = stack.last().unwrap_or(&dflt);
                    if set.contains(t) {
                        return Err(format!("SimpleIdentifier {:?} at offset {} is a reserved word of the keyword set in force", t, x.nodes.0.offset));
                    }
                }
                checked += 1;
            }
            _ => {}
        }
        i += 1;
    }
    Ok(checked)
}

fn probe(acc: &mut Acc, version: Option<&'static str>, word: &str, pos: usize, prefix: &str) {
    let (pname, tmpl, ident_only) = POSITIONS[pos];
    let body = tmpl.replace("{W}", word);
    let src = match version {
        Some(v) => format!("{}`begin_keywords \"{}\"\n{}`end_keywords\n", prefix, v, body),
        None => format!("{}{}", prefix, body),
    };
    let reserved = kwref::set(version.unwrap_or("1800-2017")).contains(word);
    acc.transitions += 1;
    acc.traces += 1;
    acc.nontrivial += 1;
    let case = || json!({"version": version, "word": word, "position": pname, "source": src});
    match api::parse_simple(&src, false, false) {
        Err(p) => {
            acc.class("violation");
            acc.violation(None, case(), format!("panic {}", p));
        }
        Ok(Ok((t, _))) => {
            let ix = match tree::index(&t) {
                Ok(i) => i,
                Err(e) => {
                    acc.violation(None, case(), e);
                    return;
                }
            };
            if let Err(m) = check_tree_identifiers(&t, &ix) {
                acc.class("violation");
                acc.violation(None, case(), format!("{} ({} as {} under {})\nsource: {:?}", m, word, pname, version.unwrap_or("default"), src));
                return;
            }
            if reserved && ident_only {
                acc.class("violation");
                acc.violation(None, case(), format!("reserved word {:?} of {} is accepted as {}\nsource: {:?}", word, version.unwrap_or("the default set"), pname, src));
                return;
            }
            if !reserved {
                // the word must be there as one identifier leaf
                let _ = (&body, tmpl);
                let ok = ix.leaves.iter().any(|(l, id)| t.get_str(*l) == Some(word) && matches!(ix.nodes[*id].parent.map(|p| ix.nodes[p].kind.as_str()), Some("SimpleIdentifier")));
                if !ok {
                    acc.class("violation");
                    acc.violation(Some(format!("not-reserved-yet-not-identifier/{}", pname.replace(' ', "-"))), case(), format!("{:?} is not reserved in {} but is not a SimpleIdentifier leaf as {}\nsource: {:?}", word, version.unwrap_or("the default set"), pname, src));
                    return;
                }
            }
            acc.class(if reserved { "reserved-accepted-as-keyword" } else { "identifier-accepted" });
        }
        Ok(Err(e)) => {
            if reserved {
                acc.class("reserved-rejected");
            } else {
                acc.class("violation");
                // signature per (position): a later-standard keyword parser fires regardless of the set in force
                let later = kwref::set("1800-2017").contains(word);
                let sig = if later { Some(format!("later-standard-keyword-rejected-as-identifier/{}/{}", pname.replace(' ', "-"), word)) } else { None };
                acc.violation(sig, case(), format!("{:?} is not reserved in {} but the source is rejected ({}) with it as {}\nsource: {:?}", word, version.unwrap_or("the default set"), err_sig(&e), pname, src));
            }
        }
    }
}

pub fn build(tier: Tier) -> Check<'static> {
    let mut c = Check::new("C13", tier, "6/C13");
    c.rule = "(a) 8 version specifiers x (all 248 reserved words of any standard + 10 non-keywords) x 7 identifier positions inside a `begin_keywords region: rejected iff reserved in that version where only an identifier can stand, otherwise accepted with the word as one SimpleIdentifier leaf; (b) the same without directive (1800-2017 set); (c) every sequence of <= 4 (quick) / 5 (thorough) keyword-region segments with probe modules; (d) (a) for 3 versions behind every ordered pair of 6 leading directive forms; (e) `define <directive name> rejected; (f) on every tree of the seeds, the grammar sentences and the region programs no SimpleIdentifier is reserved in the set in force, recomputed from the directive nodes in tree order; non-trivial = every probe, distinct by construction".into();
    c.assumptions = vec!["keyword tables models/keywords/*.txt typed from Annex B / Table 22-x independently of keywords.rs".into()];
    let words: Vec<&'static str> = kwref::union_all().into_iter().chain(NON_KEYWORDS.iter().copied()).collect();
    let words = Arc::new(words);
    let nw = words.len() as u64;
    let np = POSITIONS.len() as u64;
    {
        let w = words.clone();
        c.parts.push(Part::new("versions-x-words-x-positions", 8 * nw * np, "8 versions x 258 words x 7 positions", move |i, acc| {
            let v = kwref::VERSIONS[(i / (nw * np)) as usize];
            probe(acc, Some(v), w[((i / np) % nw) as usize], (i % np) as usize, "");
        }));
    }
    {
        let w = words.clone();
        c.parts.push(Part::new("default-set", nw * np, "258 words x 7 positions without any directive", move |i, acc| {
            probe(acc, None, w[(i / np) as usize], (i % np) as usize, "");
        }));
    }
    {
        // (d) leading directives must not disturb the check
        let forms: Vec<&'static str> = vec!["`resetall\n", "`celldefine\n", "`timescale 1ns/1ps\n", "`define Q 1\n", "`define R(x) x\nwire `R(w1);\n".trim_start_matches("wire"), "`begin_keywords \"1800-2017\"\n`end_keywords\n"];
        let forms: Vec<String> = forms.into_iter().map(|s| s.to_string()).collect();
        let nf = forms.len() as u64;
        let vs: [&'static str; 3] = ["1364-2001", "1800-2005", "1800-2017"];
        let sel: Vec<&'static str> = vec!["logic", "do", "module", "wire", "config", "uwire", "checker", "soft", "foo", "bit"];
        let ns = sel.len() as u64;
        c.parts.push(Part::new("leading-directives", nf * nf * 3 * ns * np, "every ordered pair of 6 leading directive forms x 3 versions x 10 words x 7 positions", move |i, acc| {
            let p = (i % np) as usize;
            let w = sel[((i / np) % ns) as usize];
            let v = vs[((i / (np * ns)) % 3) as usize];
            let f2 = &forms[((i / (np * ns * 3)) % nf) as usize];
            let f1 = &forms[((i / (np * ns * 3 * nf)) % nf) as usize];
            probe(acc, Some(v), w, p, &format!("{}{}", f1, f2));
        }));
    }
    {
        let sp = kwprogs::programs(0, tier.pick(4, 5));
        c.parts.push(Part::new("keyword-regions", sp.len(), "nested / sequential / unclosed regions with probe modules", move |i, acc| {
            let p = sp.get(i);
            let src = kwprogs::render(&p);
            let Some(inforce) = kwprogs::versions_in_force(&p) else {
                acc.class("end_keywords-without-region (outside the statement)");
                return;
            };
            // expectation: accepted iff no probe module uses a word reserved in the set in force
            let mut bad = None;
            for (k, v) in &inforce {
                if let Seg::Mod(b) = p[*k] {
                    let w = kwprogs::BODIES[b].1;
                    if !w.is_empty() && kwref::set(v.unwrap_or("1800-2017")).contains(w) {
                        bad = Some((w, *v));
                    }
                }
            }
            acc.transitions += 1;
            acc.traces += 1;
            acc.nontrivial += 1;
            let case = || json!({"source": src});
            match api::parse_simple(&src, false, false) {
                Err(pn) => acc.violation(None, case(), format!("panic {}", pn)),
                Ok(Ok((t, _))) => {
                    if let Some((w, v)) = bad {
                        acc.class("violation");
                        acc.violation(None, case(), format!("{:?} is reserved in {} but the program is accepted\nsource: {:?}", w, v.unwrap_or("the default set"), src));
                        return;
                    }
                    match tree::index(&t).and_then(|ix| check_tree_identifiers(&t, &ix)) {
                        Ok(_) => acc.class("accepted-clean"),
                        Err(m) => {
                            acc.class("violation");
                            acc.violation(None, case(), format!("{}\nsource: {:?}", m, src));
                        }
                    }
                }
                Ok(Err(e)) => {
                    if bad.is_some() {
                        acc.class("rejected-as-expected");
                    } else {
                        acc.class("violation");
                        acc.violation(None, case(), format!("no probe uses a reserved word, yet the program is rejected: {}\nsource: {:?}", err_sig(&e), src));
                    }
                }
            }
        }));
    }
    {
        let names: Vec<&'static str> = {
            let mut v: Vec<&'static str> = kwref::set("directive").into_iter().collect();
            v.sort();
            v
        };
        let n = names.len() as u64;
        c.parts.push(Part::new("define-directive-name", n * 2, "`define <directive name> (object-like and function-like) must be rejected", move |i, acc| {
            let name = names[(i / 2) as usize];
            let src = if i % 2 == 0 { format!("`define {} 1\nmodule m; endmodule\n", name) } else { format!("`define {}(x) x\nmodule m; endmodule\n", name) };
            acc.transitions += 1;
            acc.traces += 1;
            acc.nontrivial += 1;
            match api::parse_simple(&src, false, false) {
                Ok(Err(_)) => acc.class("rejected"),
                Ok(Ok(_)) => {
                    acc.class("violation");
                    acc.violation(None, json!({"source": src}), format!("a compiler-directive name is accepted as macro name: {:?}", src));
                }
                Err(p) => acc.violation(None, json!({"source": src}), format!("panic {}", p)),
            }
        }));
    }
    {
        // (f) on the trees of the corpus and the reference grammar
        let seeds = Arc::new(corpus::load());
        let s = seeds.clone();
        c.parts.push(Part::new("seed-trees", s.len() as u64, "every accepted seed tree: no identifier reserved in the set in force", move |i, acc| {
            let seed = &s[i as usize];
            acc.transitions += 1;
            if let Ok(Ok((t, _))) = api::parse_simple(&seed.text, seed.is_lib(), false) {
                acc.traces += 1;
                match tree::index(&t).and_then(|ix| check_tree_identifiers(&t, &ix)) {
                    Ok(n) => {
                        acc.class("tree-clean");
                        acc.count("identifiers checked", n as u64);
                        if n > 0 {
                            acc.nontrivial += 1;
                        }
                    }
                    Err(m) => {
                        acc.class("violation");
                        acc.violation(None, json!({"seed": seed.id, "source": clip(&seed.text, 1500)}), format!("{}\nsource: {:?}", m, clip(&seed.text, 500)));
                    }
                }
            }
        }));
        let sp = crate::props::c02::sentence_texts();
        c.parts.push(Part::new("grammar-trees", sp.len(), "every accepted reference-grammar sentence tree (adversarial identifiers such as end1, wirex, \\module)", move |i, acc| {
            let src = sp.get(i);
            acc.transitions += 1;
            if let Ok(Ok((t, _))) = api::parse_simple(&src, false, false) {
                acc.traces += 1;
                match tree::index(&t).and_then(|ix| check_tree_identifiers(&t, &ix)) {
                    Ok(n) => {
                        acc.class("tree-clean");
                        acc.count("identifiers checked", n as u64);
                        acc.nontrivial += 1;
                    }
                    Err(m) => {
                        acc.class("violation");
                        acc.violation(None, json!({"source": src}), format!("{}\nsource: {:?}", m, clip(&src, 500)));
                    }
                }
            }
        }));
    }
    c
}
