//! C18 — strip_comments removes comments and nothing else.
use crate::core::run::{Check, Part, Tier};
use crate::engines::soup;
use crate::props::pp::{self, Oracles, Prog};
use crate::models::ppref::Layout;
use crate::util::api::{self, Defs};
use serde_json::json;
use std::path::{Path, PathBuf};

pub fn build(tier: Tier) -> Check<'static> {
    let mut c = Check::new("C18", tier, "6/C18");
    c.rule = "every program of the C04 profile (with comments as branch items) and the C05 profile, and every sequence of <= 4 (quick) / 5 (thorough) pieces of a 16-piece alphabet in which comments are the only separators, stand next to directives, after macro names, inside actual arguments, inside the parentheses behind a macro without formals, and at the very end of the text without a line end; each run twice (strip_comments off / on): equal non-comment tokens, equal table, equal error, no comment left outside kept `define lines; non-trivial = both runs succeed, distinct by construction".into();
    c.assumptions = vec!["tokens are compared after lexing with models/lexref.rs".into()];
    let or = Oracles { strip: true, ..Default::default() };
    {
        let sp = pp::cond_profile(true, true); // the thorough C04 profile (65 M programs) is C04's business
        let stride = tier.pick(3, 1);
        let n = (sp.len() + stride - 1) / stride;
        c.parts.push(Part::new("cond-profile", n, "conditional profile with comment items (quick: every 3rd program)", move |i, acc| pp::check_prog(acc, &sp.get(i * stride), or, "conditional profile")));
    }
    {
        let sp = pp::macro_profile(tier == Tier::Quick);
        c.parts.push(Part::new("macro-profile", sp.len(), "macro profile", move |i, acc| pp::check_prog(acc, &sp.get(i), or, "macro profile")));
    }
    {
        let sp = pp::macro_extra_profile();
        c.parts.push(Part::new("macro-shapes", sp.len(), "macro shapes (comments inside bodies)", move |i, acc| pp::check_prog(acc, &sp.get(i), or, "macro shapes")));
    }
    {
        let sp = pp::directive_body_profile();
        c.parts.push(Part::new("directive-bodies", sp.len(), "macros whose text holds directives", move |i, acc| pp::check_prog(acc, &sp.get(i), or, "directive bodies")));
    }
    {
        let alpha: [&'static str; 16] = ["\" s\"", "a", ";", " ", "\n", "/*c*/", "//c\n", "`define A 1 // d\n", "`define F(x) x /*d*/\n", "`A", "`F/*c*/(1)", "`ifdef A/*c*/\n", "`endif//c\n", "//e", "`F(1 //c\n)", "`A(/*c*/ 2)"];
        let sp = soup::strings(&alpha, 0, tier.pick(4, 5), &[""]);
        c.parts.push(Part::new("comment-soup", sp.len(), "all sequences of the 16 pieces", move |i, acc| {
            let src = sp.get(i);
            let d = Defs::new();
            acc.transitions += 1;
            let plain = match api::pp_str(&src, Path::new("top.sv"), &d, &[] as &[PathBuf], false, false) {
                Ok(r) => r,
                Err(p) => {
                    acc.violation(None, json!({"source": src}), format!("panic {}", p));
                    return;
                }
            };
            let prog = Prog { items: vec![], layout: Layout::OwnLine, pre: vec![] };
            let case = || json!({"source": src});
            match &plain {
                Ok((pt, dd)) => {
                    acc.nontrivial += 1;
                    pp::strip_oracle(acc, &prog, &src, &d, Ok((pt, dd)), &case)
                }
                Err(e) => pp::strip_oracle(acc, &prog, &src, &d, Err(api::err_sig(e)), &case),
            }
        }));
    }
    c
}
