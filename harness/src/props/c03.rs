//! C03 — the origin map sends every output byte back to the file and offset it came from.

use crate::core::run::{Check, Part, Tier};
use crate::models::lexref::{self, K};
use crate::models::ppref::*;
use crate::props::pp::{self, ModelOut, Oracles, Prog};
use std::path::Path;
use sv_parser::PreprocessedText;

pub const SIG_P1_ORIGIN: &str = "duplicated-trivia-after-string-or-escaped-identifier-maps-twice";

/// file text by name for the single-file profiles
fn file_text<'a>(m: &'a ModelOut, f: &str) -> Option<&'a str> {
    if f == "top.sv" {
        Some(&m.rendered.text)
    } else {
        None
    }
}

/// per-byte origin oracle; Err((known-finding signature, message))
pub fn check_origins(pt: &PreprocessedText, _src: &str, want: &[(String, Prov, usize)], m: &ModelOut, _path: &Path) -> Result<(), (Option<String>, String)> {
    let bodies: Vec<(usize, usize)> = m.rendered.pos.iter().filter_map(|p| p.body).collect();
    check_origins_with(pt, want, &|f| file_text(m, f).map(|s| s.to_string()), &|f, o| f == "top.sv" && bodies.iter().any(|(b, e)| *b <= o && o < *e))
}

pub fn check_origins_with(
    pt: &PreprocessedText,
    want: &[(String, Prov, usize)],
    file_text: &dyn Fn(&str) -> Option<String>,
    in_macro_body: &dyn Fn(&str, usize) -> bool,
) -> Result<(), (Option<String>, String)> {
    let text = pt.text();
    let lx = lexref::lex_opts(text, true).map_err(|e| (None, format!("output does not lex: {:?}", e)))?;
    let sig: Vec<&lexref::Lx> = lx.iter().filter(|l| !lexref::is_trivia(l.k)).collect();
    if sig.len() != want.len() {
        return Err((None, "internal: lexeme counts differ".into()));
    }
    let origin = |i: usize| pt.origin(i).map(|(p, o)| (p.to_string_lossy().to_string(), o));
    // lexeme bytes
    for (l, (w, prov, _)) in sig.iter().zip(want.iter()) {
        for i in l.b..l.e {
            let got = origin(i);
            match prov {
                Prov::Copied(f, off) => {
                    let exp = Some((f.clone(), off + (i - l.b)));
                    if got != exp {
                        return Err((None, format!("origin({}) = {:?}, but that byte of {:?} was copied from {:?}", i, got, w, exp.unwrap())));
                    }
                }
                Prov::Expansion(Some((f, body))) => match &got {
                    Some((gf, go)) if gf == f && go >= body => {}
                    _ => return Err((None, format!("origin({}) = {:?} for byte of {:?} produced by expanding a macro defined in {} with body at {}", i, got, w, f, body))),
                },
                Prov::Expansion(None) | Prov::Synth => {
                    if got.is_some() {
                        return Err((None, format!("origin({}) = {:?} for synthesised text {:?} (expected none)", i, got, w)));
                    }
                }
            }
        }
    }
    // trivia bytes: every gap between two significant lexemes (and the two ends)
    let mut gi = 0usize; // index of next significant lexeme
    let mut k = 0usize;
    while k < lx.len() {
        if !lexref::is_trivia(lx[k].k) {
            gi += 1;
            k += 1;
            continue;
        }
        let gb = lx[k].b;
        let mut ge = lx[k].e;
        let mut k2 = k + 1;
        while k2 < lx.len() && lexref::is_trivia(lx[k2].k) {
            ge = lx[k2].e;
            k2 += 1;
        }
        let prev = if gi > 0 { Some(&want[gi - 1]) } else { None };
        let next = want.get(gi);
        let same_piece = matches!((prev, next), (Some(a), Some(b)) if a.2 == b.2);
        let inside_expansion = same_piece && matches!(prev.unwrap().1, Prov::Expansion(_));
        let mut last: Option<(String, usize)> = None;
        // when both neighbours were copied from the same file, in order, the trivia between them
        // was copied from the stretch of that file that lies between them
        let window: Option<(String, usize, usize)> = match (prev, next) {
            (Some((lw, Prov::Copied(f1, o1), _)), Some((_, Prov::Copied(f2, o2), _))) if f1 == f2 && o1 + lw.len() <= *o2 => Some((f1.clone(), o1 + lw.len(), *o2)),
            _ => None,
        };
        for i in gb..ge {
            let got = origin(i);
            if inside_expansion {
                // white space inside one expansion shares the expansion's provenance
                match (&prev.unwrap().1, &got) {
                    (Prov::Expansion(Some((f, body))), Some((gf, go))) if gf == f && go >= body => {}
                    (Prov::Expansion(None), None) => {}
                    _ => return Err((None, format!("origin({}) = {:?} for white space inside an expansion ({:?})", i, got, prev.unwrap().1))),
                }
                continue;
            }
            let after_literal = gi > 0 && matches!(sig[gi - 1].k, K::Str | K::EscId);
            match &got {
                None => {
                    // allowed only next to synthesised text (its own trailing blanks)
                    let near_synth = matches!(prev.map(|p| &p.1), Some(Prov::Synth) | Some(Prov::Expansion(None))) || matches!(next.map(|p| &p.1), Some(Prov::Synth) | Some(Prov::Expansion(None)));
                    if !near_synth {
                        return Err((None, format!("origin({}) is none for the white-space/comment byte {:?} copied from a file", i, &text[i..i + 1])));
                    }
                }
                Some((f, o)) => {
                    // next to an expansion the trailing white space may carry the definition's origin
                    let near_exp = matches!(prev.map(|p| &p.1), Some(Prov::Expansion(Some(_)))) || matches!(next.map(|p| &p.1), Some(Prov::Expansion(Some(_))));
                    let ft = file_text(f);
                    let byte_ok = ft.as_ref().map(|t| t.as_bytes().get(*o) == Some(&text.as_bytes()[i])).unwrap_or(false);
                    if !byte_ok && !near_exp && !in_macro_body(f, *o) {
                        let sigv = if after_literal { Some(SIG_P1_ORIGIN.to_string()) } else { None };
                        return Err((sigv, format!("origin({}) = ({}, {}) but that file holds {:?} there, the output byte is {:?}", i, f, o, ft.as_ref().and_then(|t| t.get(*o..(*o + 1).min(t.len()))), &text[i..i + 1])));
                    }
                    if let Some((wf, wa, wb)) = &window {
                        // (bytes of another file are possible: an include that contributes white space only)
                        if f == wf && !(*o >= *wa && *o < *wb) && !in_macro_body(f, *o) {
                            let sigv = if after_literal { Some(SIG_P1_ORIGIN.to_string()) } else { None };
                            return Err((sigv, format!("origin({}) = ({}, {}) lies outside the stretch [{}, {}) of {} between the two neighbouring tokens", i, f, o, wa, wb, wf)));
                        }
                    }
                    if let Some((lf, lo)) = &last {
                        // (an expansion that consists of white space only maps into its macro's body)
                        if lf == f && *o <= *lo && !near_exp && !in_macro_body(f, *o) && !in_macro_body(lf, *lo) {
                            let sigv = if after_literal { Some(SIG_P1_ORIGIN.to_string()) } else { None };
                            return Err((sigv, format!("origin({}) = ({}, {}) does not advance past the previous byte's origin {}", i, f, o, lo)));
                        }
                    }
                    last = Some((f.clone(), *o));
                }
            }
        }
        k = k2;
    }
    Ok(())
}

pub fn origin_profile(quick: bool) -> crate::core::space::Space<Prog> {
    use crate::core::space::Space;
    let d = |name: &str, body: &str| Item::Define { name: name.into(), formals: None, body: body.into() };
    let f1 = |n: &str, formal: &str, body: &str| Item::Define { name: n.into(), formals: Some(vec![(formal.into(), None)]), body: body.into() };
    let u = |n: &str, a: Option<Vec<&str>>| Item::Usage { name: n.into(), args: a.map(|v| v.iter().map(|s| s.to_string()).collect()) };
    let cond = |name: &str, then: Vec<Item>, els: Option<Vec<Item>>| Item::Cond { neg: false, name: name.into(), then, elsifs: vec![], els };
    let alphabet: Vec<Item> = vec![
        Item::Text,
        Item::Lit("a + b ;".into()),
        Item::Str("\"s t\"".into()),
        Item::Cmt("/* c */".into()),
        Item::Cmt("// c".into()),
        Item::Kept("`timescale 1ns/1ps".into()),
        Item::Kept("`resetall".into()),
        Item::Kept("`celldefine".into()),
        Item::Kept("`endcelldefine".into()),
        Item::Kept("`default_nettype none".into()),
        Item::Kept("`begin_keywords \"1800-2017\"".into()),
        Item::Kept("`end_keywords".into()),
        Item::Kept("`unconnected_drive pull0".into()),
        Item::Kept("`nounconnected_drive".into()),
        Item::Kept("`line 3 \"f.v\" 1".into()),
        Item::Kept("`pragma foo bar".into()),
        Item::Undef("Q".into()),
        Item::UndefAll,
        d("Q", "q1 q2"),
        cond("A", vec![Item::Text], Some(vec![Item::Text])),
        cond("NOPE", vec![Item::Text], None),
        cond("A", vec![], None),
        u("A", None),
        u("F", Some(vec!["p"])),
        u("E", None),
        u("F", Some(vec![""])),
        u("C", None),
        Item::Line,
        Item::File,
    ];
    let n = if quick { 2 } else { 3 };
    let seqs = Space::of(alphabet).seq_range(0, n);
    let layouts = Space::of(vec![Layout::OwnLine, Layout::Inline, Layout::IndentCrlf]);
    seqs.product(layouts).map(move |(mut s, layout)| {
        let mut items = vec![d("A", "a1 a2"), f1("F", "x", "[ x ]"), d("E", "")];
        items.append(&mut s);
        items.push(Item::Text);
        Prog { items, layout, pre: vec![("C".into(), Some("c1 c2".into()))] }
    })
}

pub fn build(tier: Tier) -> Check<'static> {
    let mut c = Check::new("C03", tier, "6/C03");
    c.rule = "every program of the origin profile (3 fixed definitions + every sequence of <= 2 (quick) / 3 (thorough) items of a 29-item alphabet: text, string, comments, 11 kept directives, undef, define, taken / dead / empty conditionals, object-like / function-like / empty / caller-supplied usages, `__LINE__, `__FILE__; x 3 layouts) and of the C04/C05 profiles; every output byte is probed; non-trivial = successful run, distinct by construction".into();
    c.assumptions = vec![
        "the reference preprocessor (models/ppref.rs) supplies the provenance of every output token; white space is only required to map to an equal byte of the same file with increasing offsets".into(),
    ];
    let or = Oracles { origins: true, ..Default::default() };
    {
        let sp = origin_profile(tier == Tier::Quick);
        c.parts.push(Part::new("origin-profile", sp.len(), "origin profile", move |i, acc| {
            pp::check_prog(acc, &sp.get(i), or, "origin profile");
        }));
    }
    {
        // long programs: 1..40 items (thorough: 100) cycling through a 10-item pattern, so that the origin map
        // grows well past one B-tree node and segment boundaries fall everywhere
        let d = |name: &str, body: &str| Item::Define { name: name.into(), formals: None, body: body.into() };
        let u = |n: &str, a: Option<Vec<&str>>| Item::Usage { name: n.into(), args: a.map(|v| v.iter().map(|s| s.to_string()).collect()) };
        let pattern: Vec<Item> = vec![
            Item::Text,
            u("A", None),
            Item::Cmt("/* c */".into()),
            Item::Kept("`celldefine".into()),
            Item::Lit("x = y ;".into()),
            Item::Cond { neg: false, name: "A".into(), then: vec![Item::Text], elsifs: vec![], els: None },
            u("F", Some(vec!["p"])),
            Item::Str("\"s\"".into()),
            Item::Line,
            Item::Undef("Q".into()),
        ];
        let maxk = tier.pick(40u64, 100u64);
        let np = pattern.len() as u64;
        let n = maxk * np * 3 * 3;
        c.parts.push(Part::new("long-programs", n, "programs of k items cycling through a 10-item pattern, every start, strides 1/3/7, 3 layouts", move |i, acc| {
            let layout = [Layout::OwnLine, Layout::Inline, Layout::IndentCrlf][(i % 3) as usize];
            let stride = [1usize, 3, 7][((i / 3) % 3) as usize];
            let start = ((i / 9) % np) as usize;
            let k = (i / (9 * np)) as usize + 1;
            let mut items = vec![d("A", "a1 a2"), Item::Define { name: "F".into(), formals: Some(vec![("x".into(), None)]), body: "[ x ]".into() }];
            for j in 0..k {
                items.push(pattern[(start + j * stride) % pattern.len()].clone());
                // never leave a directive right after a string literal (finding F1 would mask everything)
                if matches!(items.last(), Some(Item::Str(_))) {
                    items.push(Item::Text);
                }
            }
            items.push(Item::Text);
            pp::check_prog(acc, &Prog { items, layout, pre: vec![] }, or, "long program");
        }));
    }
    {
        let sp = pp::macro_extra_profile();
        c.parts.push(Part::new("macro-shapes", sp.len(), "hand-picked macro shapes x 3 layouts", move |i, acc| {
            pp::check_prog(acc, &sp.get(i), or, "macro shapes");
        }));
    }
    {
        let sp = pp::directive_body_profile();
        c.parts.push(Part::new("directive-bodies", sp.len(), "macros whose text holds directives (executed when the macro is used)", move |i, acc| {
            pp::check_prog(acc, &sp.get(i), or, "directive bodies");
        }));
    }
    {
        let sp = pp::redefine_profile();
        c.parts.push(Part::new("redefinitions", sp.len(), "every ordered pair of definitions of one name (also two identical ones) followed by a usage: the expansion maps into the text of the definition in force", move |i, acc| {
            pp::check_prog(acc, &sp.get(i), or, "redefinitions");
        }));
    }
    {
        let sp = pp::cond_profile(true, true);
        let stride = tier.pick(7, 1);
        let n = (sp.len() + stride - 1) / stride;
        c.parts.push(Part::new("cond-profile", n, "C04 conditional profile (quick: every 7th program)", move |i, acc| {
            pp::check_prog(acc, &sp.get(i * stride), or, "conditional profile");
        }));
    }
    {
        let sp = pp::macro_profile(true);
        let stride = tier.pick(5, 1);
        let n = (sp.len() + stride - 1) / stride;
        c.parts.push(Part::new("macro-profile", n, "C05 macro profile (quick: every 5th program)", move |i, acc| {
            pp::check_prog(acc, &sp.get(i * stride), or, "macro profile");
        }));
    }
    c
}
