//! C08 — every entry point is total: Ok or a structured Error, never a panic.

use crate::core::run::{Acc, Check, Part, Tier};
use crate::corpus;
use crate::engines::soup;
use crate::util::api::{self, clip, err_sig, thread_dir, unwrap_include, Defs};
use crate::util::tree;
use serde_json::json;
use std::path::{Path, PathBuf};
use std::sync::Arc;
use sv_parser::Error;

/// exercise everything that can be done with an Ok tree
fn walk(acc: &mut Acc, t: &sv_parser::SyntaxTree, src: &str, what: &str) {
    let r = api::guarded(|| {
        let n = t.into_iter().count();
        let e = t.into_iter().event().count();
        let d = format!("{}", t).len();
        let g = format!("{:?}", t).len();
        let ix = tree::index(t).map_err(|e| format!("event discipline: {}", e))?;
        let k = tree::check_try_locate(&ix)?;
        for n in &ix.nodes {
            let _ = t.get_str(vec![n.node.clone()]);
            let _ = t.get_str_trim(vec![n.node.clone()]);
        }
        for (l, _) in &ix.leaves {
            let _ = t.get_origin(l);
        }
        Ok::<_, String>((n, e, d, g, k))
    });
    match r {
        Ok(Ok((n, ..))) => {
            acc.count("tree nodes walked", n as u64);
            acc.class("tree-walked");
        }
        Ok(Err(m)) | Err(m) => {
            acc.class("violation");
            acc.violation(None, json!({"what": what, "source": clip(src, 2000)}), format!("walking the tree of {:?} failed: {}", clip(src, 300), m));
        }
    }
}

fn through_all(acc: &mut Acc, src: &str, what: &str, lib_too: bool) {
    let path = Path::new("top.sv");
    let d = Defs::new();
    let incs: Vec<PathBuf> = vec![];
    let case = |call: &str| json!({"what": what, "call": call, "source": clip(src, 2000)});
    for strip in [false, true] {
        acc.transitions += 1;
        match api::pp_str(src, path, &d, &incs, false, strip) {
            Ok(Ok(_)) => acc.class("pp-ok"),
            Ok(Err(_)) => acc.class("pp-err"),
            Err(p) => {
                acc.class("violation");
                acc.violation(None, case(&format!("preprocess_str(strip_comments={})", strip)), format!("preprocess_str(strip_comments={}) panicked: {}\nsource: {:?}", strip, p, clip(src, 400)));
            }
        }
    }
    for lib in [false, true] {
        if lib && !lib_too {
            continue;
        }
        for inc in [false, true] {
            acc.transitions += 1;
            let r = if lib { api::parse_lib_str(src, path, &d, &incs, false, inc) } else { api::parse_sv_str(src, path, &d, &incs, false, inc) };
            match r {
                Ok(Ok((t, _))) => {
                    acc.class("parse-ok");
                    walk(acc, &t, src, what);
                }
                Ok(Err(_)) => acc.class("parse-err"),
                Err(p) => {
                    acc.class("violation");
                    acc.violation(None, case(&format!("parse_{}_str(allow_incomplete={})", if lib { "lib" } else { "sv" }, inc)), format!("parse_{}_str(allow_incomplete={}) panicked: {}\nsource: {:?}", if lib { "lib" } else { "sv" }, inc, p, clip(src, 400)));
                }
            }
        }
    }
    // ignore_include = true as well
    acc.transitions += 1;
    if let Err(p) = api::parse_sv_str(src, path, &d, &incs, true, false) {
        acc.class("violation");
        acc.violation(None, case("parse_sv_str(ignore_include=true)"), format!("parse_sv_str(ignore_include=true) panicked: {}\nsource: {:?}", p, clip(src, 400)));
    }
}

/// file-level faults: layout = top -> a.svh -> b.svh ; the faulty bytes sit in `level`
fn file_fault(acc: &mut Acc, level: usize, pos: usize, kind: usize) {
    let dir = thread_dir("C08");
    let sub = dir.join("inc2");
    let _ = std::fs::create_dir_all(&sub);
    let names = ["top.sv", "a.svh", "b.svh"];
    let bodies: [&[u8]; 3] = [b"module t;\n`include \"a.svh\"\nendmodule\n", b"wire a;\n`include \"b.svh\"\nwire a2;\n", b"wire b;\nwire b2;\n"];
    let bad: [&[u8]; 3] = [b"\xff\xfe", b"\xc3\x28", b"\xe2\x82"];
    for f in names {
        let _ = std::fs::remove_file(dir.join(f));
        let _ = std::fs::remove_file(sub.join(f));
    }
    // kind 0..2: invalid UTF-8 at position pos (0 = start, 1 = middle, 2 = end) of file `level`
    // kind 3: file `level` missing ; kind 4: file `level` present only in the second include path
    let mut expect_file = dir.join(names[level]);
    for (l, name) in names.iter().enumerate() {
        let mut content = bodies[l].to_vec();
        let mut target = dir.join(name);
        if l == level {
            match kind {
                0..=2 => {
                    let at = match pos {
                        0 => 0,
                        1 => content.len() / 2,
                        _ => content.len(),
                    };
                    let mut c2 = content[..at].to_vec();
                    c2.extend_from_slice(bad[kind]);
                    c2.extend_from_slice(&content[at..]);
                    content = c2;
                }
                3 => continue,
                _ => {
                    target = sub.join(name);
                    expect_file = target.clone();
                }
            }
        }
        std::fs::write(&target, &content).expect("write");
    }
    let top = dir.join("top.sv");
    let incs = vec![dir.clone(), sub.clone()];
    let d = Defs::new();
    acc.transitions += 2;
    acc.nontrivial += 1;
    let case = json!({"level": level, "pos": pos, "kind": kind, "dir": dir});
    for via_parse in [false, true] {
        let r: Result<Result<(), Error>, String> = if via_parse {
            api::parse_sv_file(&top, &d, &incs, false, false).map(|r| r.map(|_| ()))
        } else {
            api::pp_file(&top, &d, &incs, false, false).map(|r| r.map(|_| ()))
        };
        acc.traces += 1;
        match r {
            Err(p) => {
                acc.class("violation");
                acc.violation(None, case.clone(), format!("panic on file fault (level {}, kind {}): {}", level, kind, p));
            }
            Ok(Ok(())) => {
                if kind == 4 {
                    acc.class("found-in-second-path");
                } else {
                    acc.class("violation");
                    acc.violation(None, case.clone(), format!("file fault (level {}, kind {}) went unnoticed: Ok", level, kind));
                }
            }
            Ok(Err(e)) => {
                let (n, inner) = unwrap_include(&e);
                let ok = match (kind, inner) {
                    (0..=2, Error::ReadUtf8(p)) => n == level && *p == expect_file,
                    // a missing top file is looked up as given; a missing include is reported with the
                    // name as written (not found in any path)
                    (3, Error::File { path, .. }) => n == level && (if level == 0 { *path == expect_file } else { path == Path::new(names[level]) }),
                    _ => false,
                };
                if ok {
                    acc.class("structured-error");
                } else {
                    acc.class("violation");
                    acc.violation(None, case.clone(), format!("file fault (level {}, kind {}, file {:?}) reported as {}", level, kind, expect_file, err_sig(&e)));
                }
            }
        }
    }
}

pub fn build(tier: Tier) -> Check<'static> {
    let mut c = Check::new("C08", tier, "6/C08");
    c.rule = "every enumerated string goes through preprocess_str (both strip_comments), parse_sv_str / parse_lib_str (strict, incomplete, ignore_include) and, on Ok, full iteration, event view, Display, Debug, get_str, get_str_trim, get_origin and Locate::try_from of every node; non-trivial = every case whose preprocessing or parsing gets past the first token (counted as all cases distinct by construction of the enumeration)".into();
    c.assumptions = vec![
        "a stack overflow or abort kills the explorer; the driver then re-runs the in-flight cases one per process and reports the ones that die (C08/C09 only)".into(),
        "unreadable (permission-denied) files cannot be produced as root and are not exercised".into(),
    ];
    {
        let sp = soup::sigma_t(0, tier.pick(3, 4));
        c.parts.push(Part::new("token-soup", sp.len(), "all token soups <= 3 (quick) / 4 (thorough) over the 32-token alphabet, joiners ' ' and ''", move |i, acc| {
            acc.nontrivial += 1;
            let s = sp.get(i);
            acc.sample(|| json!({"source": s}));
            through_all(acc, &s, "token soup", true);
        }));
    }
    {
        let sp = soup::sigma_c(0, tier.pick(5, 6));
        c.parts.push(Part::new("char-soup", sp.len(), "all strings <= 5 (quick) / 6 (thorough) over the 12-character alphabet", move |i, acc| {
            acc.nontrivial += 1;
            through_all(acc, &sp.get(i), "char soup", false);
        }));
    }
    {
        let extra: Vec<&'static str> = soup::SIGMA_T.iter().chain(soup::SIGMA_T_EXTRA.iter()).copied().collect();
        let sp = soup::strings(&extra, 0, 2, &[" ", ""]);
        c.parts.push(Part::new("token-soup-wide", sp.len(), "all soups <= 2 over the 38-token alphabet (adds `line, non-ASCII, control byte, library keywords)", move |i, acc| {
            acc.nontrivial += 1;
            through_all(acc, &sp.get(i), "wide token soup", true);
        }));
    }
    {
        // macro bodies with multi-byte characters, slashes and quotes, defined and expanded
        let pieces: [&'static str; 10] = ["é", "日本", "/", "//", "x", " ", "\"", "`\"", "\\\n", "*"];
        let sp = soup::strings(&pieces, 0, tier.pick(4, 5), &[""]);
        c.parts.push(Part::new("macro-body-soup", sp.len() * 2, "`define M <body> / `define F(x) <body> with every body of <= 4 (quick) / 5 (thorough) pieces of {é, 日本, /, //, x, blank, \", `\", continuation, *}, then used", move |i, acc| {
            let body = sp.get(i / 2);
            let src = if i % 2 == 0 { format!("`define M {}\na `M b\n", body) } else { format!("`define F(x) {}\na `F(é/2) b\n", body) };
            acc.nontrivial += 1;
            through_all(acc, &src, "macro body soup", false);
        }));
    }
    {
        // file names of `include directives: literal, angle-bracketed and produced by a macro, over a
        // lexical alphabet (empty, one character, multi-byte, stray quotes and brackets)
        let pieces: [&'static str; 9] = ["q", "é", "\"", "<", ">", " ", ".", "/", "日"];
        let sp = soup::strings(&pieces, 0, tier.pick(3, 4), &[""]);
        c.parts.push(Part::new("include-name-soup", sp.len() * 4, "`include \"<name>\" / `include <<name>> / `define I <name> + `include `I / `define I(x) x + `include `I(<name>), every name of <= 3 (quick) / 4 (thorough) pieces of {q, é, \", <, >, blank, ., /, 日}", move |i, acc| {
            let name = sp.get(i / 4);
            let src = match i % 4 {
                0 => format!("`include \"{}\"\nx\n", name),
                1 => format!("`include <{}>\nx\n", name),
                2 => format!("`define I {}\n`include `I\nx\n", name),
                _ => format!("`define I(x) x\n`include `I({})\nx\n", name),
            };
            acc.nontrivial += 1;
            through_all(acc, &src, "include name soup", false);
        }));
    }
    let seeds = Arc::new(corpus::load());
    {
        // intact seeds and reference-grammar sentences: reach into every production for the tree accessors
        let s = seeds.clone();
        c.parts.push(Part::new("seeds-intact", s.len() as u64, "every seed unmodified (all entry points, every accessor on every node)", move |i, acc| {
            acc.nontrivial += 1;
            through_all(acc, &s[i as usize].text, &format!("seed {}", s[i as usize].id), s[i as usize].is_lib());
        }));
        let sp = crate::props::c02::sentence_texts();
        c.parts.push(Part::new("grammar-sentences", sp.len(), "every sentence of the C02 reference-grammar enumeration", move |i, acc| {
            acc.nontrivial += 1;
            through_all(acc, &sp.get(i), "reference grammar sentence", false);
        }));
    }
    {
        // every seed cut at every token boundary and with every single token deleted
        let lim = tier.pick(200, 1 << 30);
        let mut tab: Vec<(usize, usize, bool)> = vec![];
        for (si, seed) in seeds.iter().enumerate() {
            if seed.text.len() >= lim {
                continue;
            }
            if let Some((_, lay)) = crate::props::c01::layout_of(&seed.text, seed.is_lib()) {
                for k in 0..lay.toks.len() {
                    tab.push((si, k, false));
                    tab.push((si, k, true));
                }
            }
        }
        let tab = Arc::new(tab);
        let s = seeds.clone();
        c.parts.push(Part::new("seed-mutants", tab.len() as u64, "each seed (quick: < 200 bytes) cut after each token, and with each single token deleted", move |i, acc| {
            let (si, k, del) = tab[i as usize];
            let seed = &s[si];
            let Some((text, lay)) = crate::props::c01::layout_of(&seed.text, seed.is_lib()) else { return };
            let (b, e) = lay.toks[k];
            let m = if del { format!("{}{}", &text[..b], &text[e..]) } else { text[..e].to_string() };
            acc.nontrivial += 1;
            through_all(acc, &m, &format!("seed {} token {} {}", seed.id, k, if del { "deleted" } else { "cut" }), seed.is_lib());
        }));
    }
    {
        // cut at every BYTE boundary (char boundaries) of the seeds' raw text (with directives): preprocessor totality
        let lim = tier.pick(120, 2000);
        let mut tab: Vec<(usize, usize)> = vec![];
        for (si, seed) in seeds.iter().enumerate() {
            if seed.text.len() >= lim || !seed.text.contains('`') {
                continue;
            }
            for p in 0..seed.text.len() {
                if seed.text.is_char_boundary(p) {
                    tab.push((si, p));
                }
            }
        }
        let tab = Arc::new(tab);
        let s = seeds.clone();
        c.parts.push(Part::new("directive-seeds-cut-bytewise", tab.len() as u64, "each seed containing a directive (quick: < 120 bytes, thorough: < 2000) cut at every byte", move |i, acc| {
            let (si, p) = tab[i as usize];
            acc.nontrivial += 1;
            through_all(acc, &s[si].text[..p], &format!("seed {} cut at byte {}", s[si].id, p), false);
        }));
    }
    {
        // files: 3 levels x (3 invalid sequences x 3 positions + missing + second-path)
        let n = 3 * (3 * 3 + 2);
        c.parts.push(
            Part::new("file-faults", n as u64, "invalid UTF-8 (3 sequences x 3 positions), missing file, file only in the 2nd include path - in the top file, an include and a nested include; through preprocess and parse_sv", move |i, acc| {
                let level = (i / 11) as usize;
                let r = (i % 11) as usize;
                if level == 0 && r == 10 {
                    // the top file is opened as given; include paths do not apply to it
                    return;
                }
                if r < 9 {
                    file_fault(acc, level, r % 3, r / 3);
                } else {
                    file_fault(acc, level, 0, 3 + (r - 9));
                }
            })
            .serial(),
        );
    }
    c
}
