//! C20 — file, string and two-step entry points agree.

use crate::core::run::{Acc, Check, Part, Tier};
use crate::util::api::{self, defs_sig, err_sig, origins_sig, Defs, ParseResult, PpResult};
use crate::util::tree;
use serde_json::json;
use std::path::{Path, PathBuf};

const INPUTS: [&str; 52] = [
    "module a; endmodule\n",
    "module a; /* c */ wire w; // d\nendmodule\n",
    "// only a comment\n",
    "",
    "module a;\n`include \"{INC}\"\nendmodule\n",
    "`include \"{INC}\"\nmodule a; wire w = `FROM_INC; endmodule\n",
    "/* c */\n`include \"{INC}\" // trailing\nmodule a; endmodule\n",
    "`define W 8\nmodule a; wire [`W-1:0] w; endmodule\n",
    "`define F(x, y = 2) (x + y)\nmodule a; assign q = `F(1); /* c */ endmodule\n",
    "`ifdef A\nmodule a; endmodule\n`else\nmodule b; endmodule\n`endif\n",
    "`ifdef A\n`include \"{INC}\"\n`endif\nmodule c; endmodule // c\n",
    "`ifndef A\nmodule a; wire x = `A; endmodule\n`endif\n",
    "module a; wire x = `A; endmodule\n",
    "module a; endmodule )\n",
    "module a; endmodule\n/* c */ \u{1}\n",
    "module a; wire; endmodule\n",
    "module a;\n`include \"{INC}\"\nwire = ;\nendmodule\n",
    "`ifdef X\nmodule a; endmodule\n",
    "module a; \"unterminated\nendmodule\n",
    "`include \"{MISSING}\"\nmodule a; endmodule\n",
    "module a; `UNDEFINED endmodule\n",
    "`define F(x) x\nmodule a; `F endmodule\n",
    "x `include \"{INC}\"\n",
    "`timescale 1ns/1ps\nmodule a; endmodule\n`resetall\n",
    "`begin_keywords \"1364-2001\"\nmodule a; reg logic; endmodule\n`end_keywords\nmodule b; logic l; endmodule\n",
    "module a; initial $display(\"s // not a comment\", `__LINE__, `__FILE__); endmodule\n",
    "package p; typedef int t; endpackage\nmodule a; import p::*; t v; endmodule /* c */\n",
    "`define A_LOCAL 1 // comment in define\nmodule a; wire w = `A_LOCAL; endmodule\n",
    "`undefineall\nmodule a; endmodule\n",
    "`ifdef A `define B `A\n`endif\nmodule a; endmodule\n",
    "library l a.v;\n",
    "library l a.v, b.v -incdir c;\ninclude d.map;\n",
    "// c\nlibrary l \"a.v\"; /* d */\n",
    "config c; design top; endconfig\n",
    "library l a.v;\n)\n",
    "`include \"{INC}\"\nlibrary l a.v;\n",
    "library;\n",
    "`ifdef A\nlibrary la a.v;\n`else\nlibrary lb b.v;\n`endif\n",
    "module a;\n`include \"{INC}\"\n`include \"{INC}\"\nendmodule\n",
    "`include \"{INC2}\"\nmodule a; endmodule\n",
    "module é; endmodule\n",
    "module a; /* é */ endmodule\n",
    "`define S \"a // b\" /* c */\nmodule a; string s = `S; endmodule\n",
    "interface i; endinterface\nmodule a; i u(); endmodule\nprogram p; endprogram\n",
    "module a;\r\nwire w; // c\r\nendmodule\r\n",
    "`define X 1\r\n`ifdef X\r\nmodule b; wire w = `X; /* c\r\n d */ endmodule\r\n`endif\r\n",
    "module a;\rwire w;\rendmodule\r",
    "`include \"{INC}\"\r\nmodule a; endmodule\r\n",
    "\u{feff}module a; endmodule\n",
    "module a; string s = \"x\\\r\ny\"; endmodule\r\n",
    "module a;\n`include \"{BADUTF}\"\nendmodule\n",
    "`include \"{DIR}\"\nmodule a; endmodule\n",
];

fn pp_sig(r: &PpResult) -> String {
    match r {
        Err(p) => format!("PANIC {}", p),
        Ok(Err(e)) => format!("ERR {}", err_sig(e)),
        Ok(Ok((pt, d))) => format!("OK text={:?} origins={:?} defines={:?}", pt.text(), origins_sig(pt), defs_sig(d, true, true)),
    }
}

fn parse_sig(r: &ParseResult) -> String {
    match r {
        Err(p) => format!("PANIC {}", p),
        Ok(Err(e)) => format!("ERR {}", err_sig(e)),
        Ok(Ok((t, d))) => {
            let origins: Vec<_> = t.into_iter().filter_map(|n| if let sv_parser::RefNode::Locate(l) = n { Some(t.get_origin(l).map(|(p, o)| (p.clone(), o))) } else { None }).collect();
            format!("OK tree={} origins={:?} defines={:?}", tree::skeleton_full(t), origins, defs_sig(d, true, true))
        }
    }
}

fn two_step(pp: PpResult, lib: bool, incomplete: bool) -> ParseResult {
    match pp {
        Err(p) => Err(p),
        Ok(Err(e)) => Ok(Err(e)),
        Ok(Ok((pt, d))) => api::guarded(|| if lib { sv_parser::parse_lib_pp(pt, d, incomplete) } else { sv_parser::parse_sv_pp(pt, d, incomplete) }),
    }
}

fn one(acc: &mut Acc, input: usize, cfg: u64) {
    let tag = std::thread::current().name().unwrap_or("m").to_string();
    let ignore = cfg & 1 != 0;
    let incomplete = cfg & 2 != 0;
    let strip = cfg & 4 != 0;
    let defs_k = ((cfg >> 3) % 3) as usize;
    let incs_k = ((cfg >> 3) / 3 % 4) as usize;
    // the top file in the working directory, or in a subdirectory that also holds a copy of the header
    // (a directory that is neither the working directory nor an include path is not searched)
    let in_subdir = (cfg >> 3) / 12 % 2 == 1;
    let d1 = format!("{}_d1", tag);
    let d2 = format!("{}_d2", tag);
    let inc = format!("{}_inc.svh", tag);
    let inc2 = format!("{}_inc2.svh", tag);
    let _ = std::fs::create_dir_all(&d1);
    let _ = std::fs::create_dir_all(&d2);
    // the two copies differ, so the order of the include paths is observable
    std::fs::write(Path::new(&d1).join(&inc), "`define FROM_INC 1\nwire from_d1; // c1\n").ok();
    std::fs::write(Path::new(&d2).join(&inc), "`define FROM_INC 2\nwire from_d2; /* c2 */\n").ok();
    std::fs::write(Path::new(&d2).join(&inc2), format!("`include \"{}\"\nwire nested;\n", inc)).ok();
    let badutf = format!("{}_latin1.svh", tag);
    std::fs::write(&badutf, b"wire caf\xe9;\n").ok();
    let src = INPUTS[input].replace("{BADUTF}", &badutf).replace("{DIR}", &d1).replace("{INC}", &inc).replace("{INC2}", &inc2).replace("{MISSING}", &format!("{}_missing.svh", tag));
    let sub = format!("{}_sub", tag);
    let file = if in_subdir {
        let _ = std::fs::create_dir_all(&sub);
        std::fs::write(Path::new(&sub).join(&inc), "`define FROM_INC 3\nwire from_sub;\n").ok();
        format!("{}/{}_top.sv", sub, tag)
    } else {
        format!("{}_top.sv", tag)
    };
    std::fs::write(&file, &src).ok();
    let path = Path::new(&file);
    let defs: Defs = match defs_k {
        0 => api::mk_defs(&[]),
        1 => api::mk_defs(&[("A", None)]),
        _ => api::mk_defs(&[("A", Some("1"))]),
    };
    let incs: Vec<PathBuf> = match incs_k {
        0 => vec![],
        1 => vec![PathBuf::from(&d1)],
        2 => vec![PathBuf::from(&d1), PathBuf::from(&d2)],
        _ => vec![PathBuf::from(&d2), PathBuf::from(&d1)],
    };
    let lib = src.contains("library") || src.contains("config c");
    let case = json!({"input": src, "top_in_subdirectory": in_subdir, "ignore_include": ignore, "allow_incomplete": incomplete, "strip_comments": strip, "defines": defs_k, "include_paths": incs});
    acc.nontrivial += 1;
    acc.traces += 1;
    // preprocess (file) vs preprocess_str for this (strip, ignore) pair
    let a = api::pp_file(path, &defs, &incs, strip, ignore);
    let b = api::pp_str(&src, path, &defs, &incs, ignore, strip);
    acc.transitions += 2;
    let (sa, sb) = (pp_sig(&a), pp_sig(&b));
    if sa != sb {
        acc.class("violation");
        acc.violation(None, case.clone(), format!("preprocess(path, strip_comments={}, ignore_include={}) and preprocess_str(contents, path, ignore_include={}, strip_comments={}) disagree\nfile:   {}\nstring: {}\ninput: {:?}", strip, ignore, ignore, strip, crate::util::api::clip(&sa, 500), crate::util::api::clip(&sb, 500), src));
        cleanup(&[&file]);
        return;
    }
    acc.class(if sa.starts_with("OK") { "pp-agree-ok" } else { "pp-agree-err" });
    // parse family (strip_comments is always off there)
    if !strip {
        let results: Vec<(&str, String)> = if lib {
            vec![
                ("parse_lib(path)", parse_sig(&api::parse_lib_file(path, &defs, &incs, ignore, incomplete))),
                ("parse_lib_str(contents)", parse_sig(&api::parse_lib_str(&src, path, &defs, &incs, ignore, incomplete))),
                ("preprocess + parse_lib_pp", parse_sig(&two_step(api::pp_file(path, &defs, &incs, false, ignore), true, incomplete))),
                ("preprocess_str + parse_lib_pp", parse_sig(&two_step(api::pp_str(&src, path, &defs, &incs, ignore, false), true, incomplete))),
            ]
        } else {
            vec![
                ("parse_sv(path)", parse_sig(&api::parse_sv_file(path, &defs, &incs, ignore, incomplete))),
                ("parse_sv_str(contents)", parse_sig(&api::parse_sv_str(&src, path, &defs, &incs, ignore, incomplete))),
                ("preprocess + parse_sv_pp", parse_sig(&two_step(api::pp_file(path, &defs, &incs, false, ignore), false, incomplete))),
                ("preprocess_str + parse_sv_pp", parse_sig(&two_step(api::pp_str(&src, path, &defs, &incs, ignore, false), false, incomplete))),
            ]
        };
        acc.transitions += 6;
        for k in 1..results.len() {
            if results[k].1 != results[0].1 {
                acc.class("violation");
                acc.violation(None, case.clone(), format!("{} and {} disagree\n{}: {}\n{}: {}\ninput: {:?}", results[0].0, results[k].0, results[0].0, crate::util::api::clip(&results[0].1, 500), results[k].0, crate::util::api::clip(&results[k].1, 500), src));
                cleanup(&[&file]);
                return;
            }
        }
        acc.class(if results[0].1.starts_with("OK") { "parse-agree-ok" } else { "parse-agree-err" });
        acc.sample(|| json!({"input": crate::util::api::clip(&src, 120), "ignore_include": ignore, "allow_incomplete": incomplete, "result": crate::util::api::clip(&results[0].1, 80)}));
    }
    cleanup(&[&file]);
}

/// top-level files that cannot be read as text: every file-based route must report the same error
fn unreadable(acc: &mut Acc, kind: usize, cfg: u64) {
    let tag = std::thread::current().name().unwrap_or("m").to_string();
    let ignore = cfg & 1 != 0;
    let incomplete = cfg & 2 != 0;
    let strip = cfg & 4 != 0;
    let file = format!("{}_unreadable", tag);
    let _ = std::fs::remove_file(&file);
    let _ = std::fs::remove_dir(&file);
    let what = match kind {
        0 => "a path that does not exist",
        1 => {
            std::fs::write(&file, b"module a; // caf\xe9\nendmodule\n").ok();
            "a file holding a byte sequence that is not UTF-8"
        }
        2 => {
            std::fs::write(&file, b"library l \xff.v;\n").ok();
            "a library map holding a byte that is not UTF-8"
        }
        _ => {
            let _ = std::fs::create_dir_all(&file);
            "a directory"
        }
    };
    let path = Path::new(&file);
    let defs = api::mk_defs(&[]);
    let incs: Vec<PathBuf> = vec![];
    acc.nontrivial += 1;
    acc.traces += 1;
    acc.transitions += 5;
    let pp = pp_sig(&api::pp_file(path, &defs, &incs, strip, ignore));
    let results: Vec<(&str, String)> = vec![
        ("preprocess(path)", pp.clone()),
        ("parse_sv(path)", parse_sig(&api::parse_sv_file(path, &defs, &incs, ignore, incomplete))),
        ("preprocess + parse_sv_pp", parse_sig(&two_step(api::pp_file(path, &defs, &incs, false, ignore), false, incomplete))),
        ("parse_lib(path)", parse_sig(&api::parse_lib_file(path, &defs, &incs, ignore, incomplete))),
        ("preprocess + parse_lib_pp", parse_sig(&two_step(api::pp_file(path, &defs, &incs, false, ignore), true, incomplete))),
    ];
    let case = json!({"top_file": what, "ignore_include": ignore, "allow_incomplete": incomplete, "strip_comments": strip});
    if !pp.starts_with("ERR") {
        acc.class("violation");
        acc.violation(None, case.clone(), format!("preprocess of {} does not fail: {}", what, crate::util::api::clip(&pp, 200)));
    }
    for k in 1..results.len() {
        if results[k].1 != results[0].1 {
            acc.class("violation");
            acc.violation(None, case.clone(), format!("top file is {}: {} reports {}, {} reports {}", what, results[0].0, results[0].1, results[k].0, results[k].1));
            break;
        }
    }
    acc.class("unreadable-agree");
    acc.sample(|| json!({"top_file": what, "result": results[0].1}));
    let _ = std::fs::remove_file(&file);
    let _ = std::fs::remove_dir(&file);
}

fn cleanup(files: &[&str]) {
    for f in files {
        let _ = std::fs::remove_file(f);
    }
}

pub fn build(tier: Tier) -> Check<'static> {
    let mut c = Check::new("C20", tier, "6/C20");
    c.rule = "52 inputs (comments, CRLF / CR line ends, a byte-order mark, includes whose copies differ per include path, nested and repeated includes, macros, conditionals, junk tails, preprocess and parse errors, missing include, an included file that is not UTF-8, an included directory, library-map inputs, non-ASCII) x ignore_include x allow_incomplete x strip_comments x 3 define tables x 4 include-path lists x top file in the working directory / in a subdirectory next to a copy of the header, each written to a real file: preprocess vs preprocess_str for the flag pair, and (strip off) the four routes to a tree; plus top files that cannot be read (missing, not UTF-8, a directory) through the five file-based routes; compared on text, origin of every byte / leaf, define table with origins, error; non-trivial = every configuration, distinct by construction".into();
    c.assumptions = vec!["the process changes its working directory to /verif/.work/C20/cwd; file names are unique per worker thread".into()];
    let cwd = crate::core::run::verif_dir().join(".work").join("C20").join("cwd");
    let _ = std::fs::create_dir_all(&cwd);
    std::env::set_current_dir(&cwd).expect("chdir");
    let n_cfg = 8 * 3 * 4 * 2;
    let _ = tier;
    c.parts.push(Part::new("unreadable-top-files", 4 * 8, "top file missing / not UTF-8 (source, library map) / a directory x ignore_include x allow_incomplete x strip_comments: the five file-based routes report one and the same error", move |i, acc| unreadable(acc, (i / 8) as usize, i % 8)));
    c.parts.push(Part::new("configurations", (INPUTS.len() as u64) * n_cfg, "input x flags x defines x include paths", move |i, acc| one(acc, (i / n_cfg) as usize, i % n_cfg)));
    c
}
