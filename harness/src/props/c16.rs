//! C16 — tree traversal is a faithful pre-order with balanced events.

use crate::core::run::{Acc, Check, Part, Tier};
use crate::corpus;
use crate::engines::soup;
use crate::props::c01::{layout_of, TRIVIA};
use crate::util::api::{self, clip, fnv};
use crate::util::tree::{self, kind_of, TreeIndex};
use serde_json::json;
use std::collections::BTreeSet;
use std::sync::Arc;
use sv_parser::{unwrap_locate, unwrap_node, EventIter, Iter, NodeEvent, RefNode, RefNodes, SyntaxTree};

/// names of all `struct`s deriving Node, read from the syntax-tree crate of the working tree
fn struct_kinds() -> BTreeSet<String> {
    let mut out = BTreeSet::new();
    fn walk(d: &std::path::Path, out: &mut BTreeSet<String>) {
        let Ok(rd) = std::fs::read_dir(d) else { return };
        for e in rd.flatten() {
            let p = e.path();
            if p.is_dir() {
                walk(&p, out);
            } else if p.extension().map(|x| x == "rs").unwrap_or(false) {
                let Ok(s) = std::fs::read_to_string(&p) else { continue };
                let mut hit = false;
                for l in s.lines() {
                    let t = l.trim();
                    if hit {
                        if let Some(rest) = t.strip_prefix("pub struct ") {
                            let name: String = rest.chars().take_while(|c| c.is_alphanumeric() || *c == '_').collect();
                            out.insert(name);
                        }
                        hit = false;
                    }
                    if t.starts_with("#[derive") && t.contains("Node") {
                        hit = true;
                    }
                }
            }
        }
    }
    walk(std::path::Path::new("/repo/sv-parser-syntaxtree/src"), &mut out);
    out.insert("Locate".into());
    out
}

/// pre-order of struct nodes according to std's derived Debug (field order)
fn debug_preorder(root: &RefNode, structs: &BTreeSet<String>) -> Vec<(String, Option<(usize, usize)>)> {
    let s = format!("{:?}", root);
    let b = s.as_bytes();
    let mut out = vec![];
    let mut i = 0;
    while i < b.len() {
        if b[i].is_ascii_alphabetic() {
            let st = i;
            while i < b.len() && (b[i].is_ascii_alphanumeric() || b[i] == b'_') {
                i += 1;
            }
            let name = &s[st..i];
            if s[i..].starts_with(" {") && structs.contains(name) {
                if name == "Locate" {
                    // Locate { offset: N, line: N, len: N }
                    let rest = &s[i..];
                    let end = rest.find('}').unwrap_or(rest.len());
                    let nums: Vec<usize> = rest[..end]
                        .split(|c: char| !c.is_ascii_digit())
                        .filter(|x| !x.is_empty())
                        .filter_map(|x| x.parse().ok())
                        .collect();
                    if nums.len() == 3 {
                        out.push((name.to_string(), Some((nums[0], nums[2]))));
                    }
                    i += end;
                } else {
                    out.push((name.to_string(), None));
                }
            }
        } else {
            i += 1;
        }
    }
    out
}

fn proj(n: &RefNode) -> (String, Option<(usize, usize)>) {
    match n {
        RefNode::Locate(l) => ("Locate".to_string(), Some((l.offset, l.len))),
        n => (kind_of(n), None),
    }
}

const KIND_SETS: [&[&str]; 12] = [
    &["ModuleIdentifier"],
    &["SimpleIdentifier", "EscapedIdentifier"],
    &["Identifier"],
    &["Keyword"],
    &["Symbol"],
    &["WhiteSpace"],
    &["Expression", "ConstantExpression"],
    &["Statement"],
    &["ModuleDeclarationAnsi", "ModuleDeclarationNonansi"],
    &["Number", "StringLiteral"],
    &["Comment"],
    &["PortIdentifier", "InstanceIdentifier", "VariableIdentifier", "NetIdentifier"],
];

fn unwrap_set<'a>(n: RefNode<'a>, k: usize) -> Option<RefNode<'a>> {
    match k {
        0 => unwrap_node!(n, ModuleIdentifier),
        1 => unwrap_node!(n, SimpleIdentifier, EscapedIdentifier),
        2 => unwrap_node!(n, Identifier),
        3 => unwrap_node!(n, Keyword),
        4 => unwrap_node!(n, Symbol),
        5 => unwrap_node!(n, WhiteSpace),
        6 => unwrap_node!(n, Expression, ConstantExpression),
        7 => unwrap_node!(n, Statement),
        8 => unwrap_node!(n, ModuleDeclarationAnsi, ModuleDeclarationNonansi),
        9 => unwrap_node!(n, Number, StringLiteral),
        10 => unwrap_node!(n, Comment),
        _ => unwrap_node!(n, PortIdentifier, InstanceIdentifier, VariableIdentifier, NetIdentifier),
    }
}

pub fn check_tree(tree: &SyntaxTree, structs: &BTreeSet<String>, deep: bool) -> Result<(usize, usize), String> {
    // (2) event view: discipline + Enter sequence == plain iteration
    let ix: TreeIndex = tree::index(tree)?;
    let whole_s = tree::text_from_leaves(tree, &ix).ok_or_else(|| "the leaves of the tree do not tile its text".to_string())?;
    let plain: Vec<RefNode> = tree.into_iter().collect();
    if plain.len() != ix.nodes.len() {
        return Err(format!("plain iteration yields {} nodes, the event view enters {}", plain.len(), ix.nodes.len()));
    }
    for (k, n) in plain.iter().enumerate() {
        if proj(n) != proj(&ix.nodes[k].node) {
            return Err(format!("node #{}: plain iteration yields {:?}, event view enters {:?}", k, proj(n), proj(&ix.nodes[k].node)));
        }
    }
    if plain.is_empty() {
        return Err("iteration of the tree yields nothing (the root must come first)".into());
    }
    // every Enter has exactly one Leave: index() paired them; count events
    let nev = tree.into_iter().event().count();
    if nev != 2 * plain.len() {
        return Err(format!("{} events for {} nodes", nev, plain.len()));
    }
    // (1) independent pre-order from derive(Debug)
    let dbg = debug_preorder(&plain[0], structs);
    let it: Vec<_> = plain.iter().map(proj).filter(|(k, _)| structs.contains(k)).collect();
    if dbg != it {
        let k = dbg.iter().zip(it.iter()).position(|(a, b)| a != b).unwrap_or(dbg.len().min(it.len()));
        return Err(format!(
            "iteration order differs from field order at struct node #{}: Debug has {:?}, iteration has {:?} (lengths {} / {})",
            k,
            dbg.get(k),
            it.get(k),
            dbg.len(),
            it.len()
        ));
    }
    // source order: leaves ascend
    let mut last = 0usize;
    for (l, _) in &ix.leaves {
        if l.offset < last {
            return Err(format!("leaf at {} visited after a leaf ending at {}", l.offset, last));
        }
        last = l.offset + l.len;
    }
    let projs: Vec<_> = plain.iter().map(proj).collect();
    let mut subchecks = 0usize;
    // (3)(4)(5) for every node (deep) or for every node of small trees / a stride of big ones
    let stride = if deep || ix.nodes.len() <= 400 { 1 } else { 7 };
    for i in (0..ix.nodes.len()).step_by(stride) {
        let n = &ix.nodes[i];
        // (3) sub-iteration == slice
        let mut k = n.pre;
        for m in n.node.clone() {
            if k >= n.end || proj(&m) != projs[k] {
                return Err(format!(
                    "iterating node #{} ({}) yields {:?} at step {}, the tree's pre-order has {:?}",
                    i,
                    n.kind,
                    proj(&m),
                    k - n.pre,
                    projs.get(k).filter(|_| k < n.end)
                ));
            }
            k += 1;
        }
        if k != n.end {
            return Err(format!("iterating node #{} ({}) stops after {} nodes, its subtree has {}", i, n.kind, k - n.pre, n.end - n.pre));
        }
        // event view of the sub-iteration
        let sub = tree::index_events(n.node.clone().into_iter().event())?;
        if sub.nodes.len() != n.end - n.pre {
            return Err(format!("event view of node #{} ({}) enters {} nodes, subtree has {}", i, n.kind, sub.nodes.len(), n.end - n.pre));
        }
        // (4) unwrap_node! / unwrap_locate!
        for (s, set) in KIND_SETS.iter().enumerate() {
            let want = (n.pre..n.end).find(|j| set.contains(&ix.nodes[*j].kind.as_str()));
            let got = unwrap_set(n.node.clone(), s);
            let got_p = got.as_ref().map(|g| (kind_of(g), unwrap_locate!(g.clone()).map(|l| l.offset)));
            let want_p = want.map(|j| {
                let w = &ix.nodes[j];
                (w.kind.clone(), if w.first_leaf < w.leaf_end { Some(ix.leaves[w.first_leaf].0.offset) } else { None })
            });
            if got_p != want_p {
                return Err(format!("unwrap_node!(node #{} {}, {:?}) = {:?}, first match in pre-order is {:?}", i, n.kind, set, got_p, want_p));
            }
        }
        let wl = if n.first_leaf < n.leaf_end { Some(ix.leaves[n.first_leaf].0) } else { None };
        let gl = unwrap_locate!(n.node.clone());
        if gl.map(|l| (l.offset, l.len)) != wl.map(|l| (l.offset, l.len)) {
            return Err(format!("unwrap_locate!(node #{} {}) = {:?}, first leaf is {:?}", i, n.kind, gl, wl));
        }
        // (5) get_str_trim
        let want = tree::trim_span(&ix, i);
        let got = tree.get_str_trim(vec![n.node.clone()]);
        let whole = whole_s.as_str();
        let want_s = want.map(|(b, e)| &whole[b..e]);
        if got != want_s {
            // defect signature: the skip flag is a bool, so the Leave of a WhiteSpace nested in a
            // WhiteSpace::CompilerDirective re-enables collection inside the outer WhiteSpace
            let mut skip = false;
            let (mut b, mut e) = (None, 0);
            for ev in n.node.clone().into_iter().event() {
                match ev {
                    NodeEvent::Enter(RefNode::WhiteSpace(_)) => skip = true,
                    NodeEvent::Leave(RefNode::WhiteSpace(_)) => skip = false,
                    NodeEvent::Enter(RefNode::Locate(l)) if !skip => {
                        if b.is_none() {
                            b = Some(l.offset);
                        }
                        e = l.offset + l.len;
                    }
                    _ => {}
                }
            }
            let emu = b.map(|b| &whole[b..e]);
            let tag = if got == emu { "[sig:get_str_trim-bool-skip-reset-by-nested-whitespace] " } else { "" };
            return Err(format!("{}get_str_trim(node #{} {}) = {:?}, first..last non-whitespace token is {:?}", tag, i, n.kind, got, want_s));
        }
        subchecks += 1;
    }
    // (6) the views taken from an iterator in ANY state: after k steps, the rest of the plain
    // iteration, its event view (Iter::event and EventIter::from) all continue the same pre-order
    let n_all = ix.nodes.len();
    let mut ks: Vec<usize> = (0..n_all.min(if deep { 64 } else { 24 })).collect();
    let step = (n_all / 16).max(1);
    ks.extend((0..n_all).step_by(step));
    ks.push(n_all - 1);
    ks.sort();
    ks.dedup();
    for &k in &ks {
        let advance = || {
            let mut it = tree.into_iter();
            for _ in 0..k {
                it.next();
            }
            it
        };
        let rest: Vec<_> = advance().map(|m| proj(&m)).collect();
        if rest[..] != projs[k..] {
            return Err(format!("an iterator advanced by {} steps continues with {} nodes that are not the rest of the pre-order ({} nodes)", k, rest.len(), n_all - k));
        }
        for (what, ev) in [("Iter::event()", advance().event()), ("EventIter::from(iter)", EventIter::from(advance()))] {
            let sub = tree::index_events(ev).map_err(|e| format!("{} of an iterator advanced by {} steps: {}", what, k, e))?;
            let got: Vec<_> = sub.nodes.iter().map(|m| proj(&m.node)).collect();
            if got[..] != projs[k..] {
                let d = got.iter().zip(projs[k..].iter()).position(|(a, b)| a != b).unwrap_or(got.len().min(n_all - k));
                return Err(format!("{} of an iterator advanced by {} steps: Enter #{} is {:?}, plain iteration continues with {:?}", what, k, d, got.get(d), projs.get(k + d)));
            }
        }
        subchecks += 1;
    }
    // (7) several roots at once (RefNodes built from a node list, as the From impls for tuples,
    // Vec, List, Paren do): the children of a node, given as roots, enumerate its subtree
    for i in (0..ix.nodes.len()).step_by(stride) {
        let n = &ix.nodes[i];
        let kids: Vec<usize> = (n.pre + 1..n.end).filter(|j| ix.nodes[*j].parent == Some(i)).collect();
        if kids.len() < 2 {
            continue;
        }
        let roots = || RefNodes(kids.iter().map(|j| ix.nodes[*j].node.clone()).collect());
        let plain2: Vec<_> = Iter::new(roots()).map(|m| proj(&m)).collect();
        if plain2[..] != projs[n.pre + 1..n.end] {
            return Err(format!("Iter::new over the {} children of node #{} ({}) does not enumerate its subtree in pre-order", kids.len(), i, n.kind));
        }
        let sub = tree::index_events(Iter::new(roots()).event()).map_err(|e| format!("event view over the children of node #{} ({}): {}", i, n.kind, e))?;
        let got: Vec<_> = sub.nodes.iter().map(|m| proj(&m.node)).collect();
        if got[..] != projs[n.pre + 1..n.end] {
            let d = got.iter().zip(projs[n.pre + 1..n.end].iter()).position(|(a, b)| a != b).unwrap_or(0);
            return Err(format!("event view over the {} children of node #{} ({}): Enter #{} is {:?}, plain iteration has {:?}", kids.len(), i, n.kind, d, got.get(d), projs.get(n.pre + 1 + d)));
        }
        let whole = whole_s.as_str();
        let want_full = if n.first_leaf < n.leaf_end { Some(&whole[ix.leaves[n.first_leaf].0.offset..ix.leaves[n.leaf_end - 1].0.offset + ix.leaves[n.leaf_end - 1].0.len]) } else { None };
        let got_full = tree.get_str(roots());
        if got_full != want_full {
            return Err(format!("get_str(children of node #{} {}) = {:?}, their leaves span {:?}", i, n.kind, got_full, want_full));
        }
        let spans: Vec<(usize, usize)> = kids.iter().filter_map(|j| tree::trim_span(&ix, *j)).collect();
        let want_trim = if spans.is_empty() { None } else { Some(&whole[spans[0].0..spans[spans.len() - 1].1]) };
        let got_trim = api::guarded(|| tree.get_str_trim(roots()).map(|s| s.to_string())).map_err(|p| format!("get_str_trim(children of node #{} {}) panicked: {}", i, n.kind, p))?;
        if got_trim.as_deref() != want_trim {
            return Err(format!("get_str_trim(children of node #{} {}) = {:?}, first..last non-whitespace token is {:?}", i, n.kind, got_trim, want_trim));
        }
        subchecks += 1;
    }
    // the preprocessor's own use: NodeEvent::Leave(x) == the Enter(x) — covered by index()
    let _ = NodeEvent::Enter(plain[0].clone());
    Ok((ix.nodes.len(), subchecks))
}

fn check_source(acc: &mut Acc, structs: &BTreeSet<String>, src: &str, lib: bool, incomplete: bool, deep: bool, what: &str) {
    acc.transitions += 1;
    let tree = match api::parse_simple(src, lib, incomplete) {
        Ok(Ok((t, _))) => t,
        Ok(Err(_)) => {
            acc.class("rejected");
            return;
        }
        Err(_) => {
            acc.class("panic-in-parse");
            return;
        }
    };
    match api::guarded(|| check_tree(&tree, structs, deep)) {
        Ok(Ok((nodes, sub))) => {
            acc.class("tree-checked");
            acc.traces += 1;
            acc.count("nodes", nodes as u64);
            acc.count("per-node subchecks", sub as u64);
            if nodes > 3 {
                acc.distinct(fnv(format!("{}{}{}", lib, incomplete, src).as_bytes()));
            }
            acc.sample(|| json!({"source": clip(src, 160), "nodes": nodes, "nodes_checked_individually": sub}));
        }
        Ok(Err(m)) => {
            acc.class("violation");
            let sig = m.strip_prefix("[sig:").and_then(|r| r.split(']').next()).map(|x| x.to_string());
            acc.violation(sig, json!({"what": what, "lib": lib, "incomplete": incomplete, "source": clip(src, 2000)}), format!("{}\nsource: {:?}", m, clip(src, 600)));
        }
        Err(p) => {
            acc.class("violation");
            acc.violation(None, json!({"what": what, "source": clip(src, 2000)}), format!("panic during traversal: {}\nsource: {:?}", p, clip(src, 600)));
        }
    }
}

pub fn build(tier: Tier) -> Check<'static> {
    let mut c = Check::new("C16", tier, "6/C16");
    c.rule = "every accepted tree of the enumerated sources; in it every node (stride 7 on trees > 400 nodes in the quick tier) is iterated on its own, unwrapped for 12 kind sets and trimmed; non-trivial = tree with > 3 nodes, distinct by source hash".into();
    c.assumptions = vec![
        "std's derive(Debug) prints fields in declaration order (used as the independent pre-order for struct nodes and leaves)".into(),
        "node identity is compared as (kind, leaf position), not by address".into(),
    ];
    let structs = Arc::new(struct_kinds());
    let seeds = Arc::new(corpus::load());
    let deep = tier == Tier::Thorough;
    {
        let (s, st) = (seeds.clone(), structs.clone());
        c.parts.push(Part::new("seeds", (s.len() * 2) as u64, "each seed, strict and incomplete", move |i, acc| {
            let seed = &s[(i / 2) as usize];
            check_source(acc, &st, &seed.text, seed.is_lib(), i % 2 == 1, deep, &format!("seed {}", seed.id));
        }));
    }
    {
        let (s, st) = (seeds.clone(), structs.clone());
        let forms: Vec<&'static str> = if deep { TRIVIA.to_vec() } else { vec![TRIVIA[3], TRIVIA[6]] };
        let nf = forms.len();
        c.parts.push(Part::new("seeds-all-gaps", (s.len() * nf) as u64, "each seed with all plain gaps replaced by a comment / a kept directive (all 8 forms in thorough)", move |i, acc| {
            let seed = &s[(i as usize) / nf];
            let t = forms[(i as usize) % nf];
            let Some((text, lay)) = layout_of(&seed.text, seed.is_lib()) else { return };
            let m = lay.render(&text, |k, g| if g.plain && g.end > g.start && k > 0 { Some(t.to_string()) } else { None });
            check_source(acc, &st, &m, seed.is_lib(), false, deep, &format!("seed {} all gaps -> {:?}", seed.id, t));
        }));
    }
    {
        let st = structs.clone();
        let sp = soup::sigma_t(0, tier.pick(3, 4));
        c.parts.push(Part::new("token-soup", sp.len(), "all token soups up to length 3 (quick) / 4 (thorough); accepted ones are traversed", move |i, acc| {
            check_source(acc, &st, &sp.get(i), false, true, deep, "token soup");
        }));
    }
    {
        let st = structs.clone();
        let sp = crate::props::c02::sentence_texts();
        c.parts.push(Part::new("grammar-sentences", sp.len(), "every sentence of the C02 reference-grammar enumeration (all production alternatives with their optional parts, all adjacent pairs)", move |i, acc| {
            check_source(acc, &st, &sp.get(i), false, false, true, "reference grammar sentence");
        }));
    }
    {
        let st = structs.clone();
        let sp = crate::props::c01::lib_sentences(tier.pick(2, 3));
        c.parts.push(Part::new("lib-sentences", sp.len(), "library-map sentences", move |i, acc| {
            check_source(acc, &st, &sp.get(i), true, false, deep, "library sentence");
        }));
    }
    c
}
