//! C07 — results depend only on the arguments, not on what the thread did before.

use crate::core::run::{Acc, Check, Part, Tier};
use crate::core::space::Space;
use crate::util::api::{self, defs_sig, err_sig, origins_sig, Defs};
use crate::util::tree;
use serde_json::json;
use std::cell::RefCell;
use std::collections::{BTreeMap, BTreeSet, VecDeque};
use std::path::{Path, PathBuf};
use std::sync::Arc;
use sv_parser_parser::{Span, SpanInfo};

#[derive(Clone, Copy, Debug, PartialEq, Eq, PartialOrd, Ord, Hash)]
pub struct Call(pub usize);

pub const CALLS: [(&str, &str); 33] = [
    ("parse_sv_str ok", "module a; wire w; endmodule\n"),
    ("parse_sv_str broken", "module a; wire ; endmodule\n"),
    ("parse_sv_str incomplete", "module a; endmodule\n)"),
    ("parse_lib_str ok", "library l a.v;\n"),
    ("parse_lib_str broken", "library ;\n"),
    ("preprocess_str recursion limit", "`define A `A\n`A\n"),
    ("preprocess_str self-including file", "`include \"{SELF}\"\n"),
    ("parse_sv_str leaves begin_keywords open", "`begin_keywords \"1364-2001\"\nmodule a; reg logic; endmodule\n"),
    ("parse_sv_str starts with resetall", "`resetall\nmodule a; endmodule\n"),
    ("preprocess_str syntax error after define", "`define X 1\n`ifdef\n"),
    ("probe: reserved word as net name", "module a; wire logic; endmodule\n"),
    ("probe: reserved word as module name", "module module; endmodule\n"),
    ("probe: comments between tokens", "module a; /* c */ wire w; // d\nendmodule\n"),
    ("raw sv_parser on the reused buffer (text 1)", "module a; wire w; endmodule  "),
    ("raw sv_parser on the reused buffer (text 2)", "module b; reg r; endmodule   "),
    ("raw lib_parser on the reused buffer", "library l a.v;               "),
    ("raw pp_parser on the reused buffer", "`define A 1\n`A `ifdef A x   "),
    ("parse_sv_str with define and ifdef", "`define W 1\n`ifdef W\nmodule a; logic l; endmodule\n`endif\n"),
    ("preprocess_str on the reused String: rejected (unterminated string)", "module a; initial $display(\"oops); endmodule\n"),
    ("preprocess_str on the reused String: accepted", "module b; wire w; /* c */ endmodule          \n"),
    ("parse_sv_str on the reused String: rejected by the parser", "module c; wire ; endmodule\n"),
    ("parse_sv_str on the reused String: accepted", "module d; reg r; endmodule\n"),
    ("parse_sv_str leaves two nested begin_keywords regions open", "`begin_keywords \"1364-2001\"\n`begin_keywords \"1800-2017\"\nmodule a; endmodule\n"),
    ("parse_sv_str leaves three nested begin_keywords regions open", "`begin_keywords \"1364-1995\"\nmodule a; endmodule\n`begin_keywords \"1800-2017\"\n`begin_keywords \"1364-2001\"\nmodule b; endmodule\n"),
    ("probe: preprocess_str of `ifdef on a word that only later standards reserve", "`ifdef priority\nx\n`endif\n`ifndef logic\ny\n`endif\n"),
    ("probe: parse_sv_str of `undef on a word that only later standards reserve", "`undef final\nmodule p; endmodule\n"),
    ("preprocess_str leaves two begin_keywords regions open", "`begin_keywords \"1364-2001\"\n`begin_keywords \"1364-1995\"\nmodule a; endmodule\n"),
    ("preprocess_str: `include of a header found through include path A", "x\n`include \"c07_common.svh\"\ny `WIDTH\n"),
    ("preprocess_str: `include of the same name found through include path B", "x\n`include \"c07_common.svh\"\ny `WIDTH\n"),
    ("parse_sv_str: `include of the same name through path B, then an undefined macro", "`include \"c07_common.svh\"\nmodule q; wire [`WIDTH:0] w = `NOPE; endmodule\n"),
    ("parse_sv_str: every third default sentence of the reference grammar (rules 0, 3, 6 ...)", "{GEN:0}"),
    ("parse_sv_str: every third default sentence of the reference grammar (rules 1, 4, 7 ...)", "{GEN:1}"),
    ("parse_sv_str: every third default sentence of the reference grammar (rules 2, 5, 8 ...)", "{GEN:2}"),
];

/// texts that together visit most of the grammar: default sentences of the reference grammar, by group
fn generated(k: usize) -> &'static str {
    static G: std::sync::OnceLock<Vec<String>> = std::sync::OnceLock::new();
    let v = G.get_or_init(|| {
        let g = crate::engines::svgen::Gen::new(crate::engines::svgen::grammar_text());
        let groups: [&[&str]; 3] = [
            &["if_stmt", "case_stmt", "for_stmt", "foreach_stmt", "seq_block", "par_block", "timing_stmt", "call_stmt", "wait_stmt", "expr_ternary", "expr_binary", "expr_concat", "expr_repl", "expr_cast", "expr_inside", "expr_assign_pattern", "expr_stream", "expr_select", "method_chain", "gen_for", "gen_if", "gen_case", "function_decl", "task_decl", "inst_item", "net_decl", "var_decl", "typedef_decl", "cont_assign"],
            &["property_decl", "sequence_decl", "concurrent_assert_item", "let_decl", "expect_stmt", "clocking_decl", "proc_concurrent_assert", "assert_stmt", "checker_decl", "property_expr", "sequence_expr"],
            &["covergroup_decl", "cover_point", "cover_cross", "class_constraint", "constraint_item", "randsequence_stmt", "randcase_stmt", "specify_block", "path_decl", "timing_check", "udp_decl", "config_decl", "class_decl", "interface_class_decl", "dpi_decl", "case_matches_stmt", "bind_directive"],
        ];
        let _ = groups;
        // every rule's default sentence, dealt round-robin into three texts: each visits a third of the
        // constructs, together they visit all of them
        let defaults = g.rule_defaults();
        let mut v = vec![String::new(), String::new(), String::new()];
        for (k, (_, items)) in defaults.iter().enumerate() {
            v[k % 3].push_str(&crate::engines::svgen::render(items, " ", 0).text);
        }
        v
    });
    v[k].as_str()
}

thread_local! {
    /// one buffer per thread, never reallocated: different texts live at the same address
    static BUF: RefCell<Box<[u8; 64]>> = RefCell::new(Box::new([b' '; 64]));
}

thread_local! {
    /// a String whose heap block is never reallocated: callers that reuse one buffer for many files
    static SBUF: RefCell<String> = RefCell::new(String::with_capacity(256));
}

fn with_sbuf<T>(text: &str, f: impl FnOnce(&str) -> T) -> T {
    SBUF.with(|b| {
        let mut b = b.borrow_mut();
        b.clear();
        b.push_str(text);
        f(b.as_str())
    })
}

fn self_file() -> PathBuf {
    crate::core::run::verif_dir().join(".work").join("C07").join("self.svh")
}

fn raw<T, F>(text: &str, f: F) -> String
where
    F: FnOnce(Span) -> Result<T, String>,
    T: std::fmt::Debug,
{
    BUF.with(|b| {
        let mut b = b.borrow_mut();
        let n = text.len().min(64);
        b[..n].copy_from_slice(&text.as_bytes()[..n]);
        for x in b[n..].iter_mut() {
            *x = b' ';
        }
        let s = std::str::from_utf8(&b[..]).unwrap();
        let span = Span::new_extra(s, SpanInfo::default());
        match api::guarded(|| f(span)) {
            Ok(Ok(t)) => format!("OK {:?}", t),
            Ok(Err(e)) => format!("ERR {}", e),
            Err(p) => format!("PANIC {}", p),
        }
    })
}

/// execute one call of the alphabet on the current thread; the returned string is everything
/// observable about the result (no addresses)
pub fn exec(c: Call) -> String {
    let (_, text) = CALLS[c.0];
    let text = match text {
        "{GEN:0}" => generated(0),
        "{GEN:1}" => generated(1),
        "{GEN:2}" => generated(2),
        t => t,
    };
    let d = Defs::new();
    let incs: Vec<PathBuf> = vec![];
    let path = Path::new("top.sv");
    let parse = |lib: bool, incomplete: bool, text: &str| -> String {
        let r = if lib { api::parse_lib_str(text, path, &d, &incs, false, incomplete) } else { api::parse_sv_str(text, path, &d, &incs, false, incomplete) };
        match r {
            Err(p) => format!("PANIC {}", p),
            Ok(Err(e)) => format!("ERR {}", err_sig(&e)),
            Ok(Ok((t, dd))) => format!("OK {} {:?}", tree::skeleton_full(&t), defs_sig(&dd, true, false)),
        }
    };
    let pp = |text: &str| -> String {
        match api::pp_str(text, path, &d, &incs, false, false) {
            Err(p) => format!("PANIC {}", p),
            Ok(Err(e)) => format!("ERR {}", err_sig(&e)),
            Ok(Ok((pt, dd))) => format!("OK {:?} {:?} {:?}", pt.text(), origins_sig(&pt), defs_sig(&dd, true, false)),
        }
    };
    let inc = |w: &str| vec![crate::core::run::verif_dir().join(".work").join("C07").join(format!("inc_{}", w))];
    match c.0 {
        27 | 28 => match api::pp_str(text, path, &d, &inc(if c.0 == 27 { "a" } else { "b" }), false, false) {
            Err(p) => format!("PANIC {}", p),
            Ok(Err(e)) => format!("ERR {}", err_sig(&e)),
            Ok(Ok((pt, dd))) => format!("OK {:?} {:?} {:?}", pt.text(), origins_sig(&pt), defs_sig(&dd, true, false)),
        },
        29 => match api::parse_sv_str(text, path, &d, &inc("b"), false, false) {
            Err(p) => format!("PANIC {}", p),
            Ok(Err(e)) => format!("ERR {}", err_sig(&e)),
            Ok(Ok((t, dd))) => format!("OK {} {:?}", tree::skeleton_full(&t), defs_sig(&dd, true, false)),
        },
        2 => parse(false, true, text),
        3 | 4 => parse(true, false, text),
        5 | 9 | 24 | 26 => pp(text),
        6 => pp(&text.replace("{SELF}", &self_file().to_string_lossy())),
        13 | 14 => raw(text, |s| sv_parser_parser::sv_parser(s).map(|(rest, t)| (rest.fragment().len(), t)).map_err(|e| format!("{:?}", nom_err_pos(&e)))),
        18 | 19 => with_sbuf(text, |t| pp(t)),
        20 | 21 => with_sbuf(text, |t| parse(false, false, t)),
        15 => raw(text, |s| sv_parser_parser::lib_parser(s).map(|(rest, t)| (rest.fragment().len(), t)).map_err(|e| format!("{:?}", nom_err_pos(&e)))),
        16 => raw(text, |s| sv_parser_parser::pp_parser(s).map(|(rest, t)| (rest.fragment().len(), t)).map_err(|e| format!("{:?}", nom_err_pos(&e)))),
        _ => parse(false, false, text),
    }
}

fn nom_err_pos<E: std::fmt::Debug>(e: &E) -> String {
    // the error value contains spans (text + offsets, no addresses); keep it short
    let s = format!("{:?}", e);
    crate::util::api::clip(&s, 200)
}

fn on_fresh_thread<T: Send + 'static>(f: impl FnOnce() -> T + Send + 'static) -> T {
    std::thread::Builder::new().stack_size(64 << 20).spawn(f).expect("spawn").join().expect("history thread panicked")
}

fn fingerprint() -> (usize, usize, Vec<u8>) {
    let (memo, dir, mut ver) = sv_parser_parser::verif::thread_state();
    // saturate: residue beyond 3 levels has the same top and the same futures for our alphabet
    ver.truncate(3);
    (memo.min(1), dir.min(3), ver)
}

pub fn build(tier: Tier) -> Check<'static> {
    let mut c = Check::new("C07", tier, "6/C07");
    c.rule = "alphabet of 33 calls (accepted / rejected / incomplete SystemVerilog and library parses, recursion-limit and self-include failures, one include name resolved through two different include paths, three accepted texts that together visit most of the grammar, sources leaving one, two and three nested `begin_keywords regions open (parser and preprocessor entry points), one starting with `resetall, a pp syntax error after a `define, five probes whose verdict flips if keyword or directive state leaks (in the parser and in the preprocessor grammar), the three raw parser entry points on ONE reused buffer, and preprocess_str / parse_sv_str fed from ONE reused String, rejected and accepted); (a) every sequence of length <= 3 (quick) / 4 (thorough) on a fresh OS thread, the last call's complete result compared with the same call on a fresh thread; (b) breadth-first search over the hooked thread state (memo occupancy, directive depth, keyword-version stack) reached by such sequences, every call checked from every reachable state; non-trivial = sequences of length >= 2, distinct by construction".into();
    c.assumptions = vec![
        "a call's result is rendered without addresses: output text, origin of every byte, define table with origins, tree skeleton with positions, error variant and payload".into(),
        "state merging in (b): memo occupancy is reduced to empty / non-empty and stacks are cut at depth 3; part (a) does not merge anything".into(),
        "nom-recursive's name->id table (external crate, monotone, saturated by the first parse) is not part of the fingerprint".into(),
    ];
    let d = crate::core::run::verif_dir().join(".work").join("C07");
    let _ = std::fs::create_dir_all(&d);
    let sf = self_file();
    std::fs::write(&sf, format!("x\n`include \"{}\"\n", sf.to_string_lossy())).expect("write self.svh");
    for (w, width) in [("a", "8"), ("b", "32")] {
        let dd = d.join(format!("inc_{}", w));
        let _ = std::fs::create_dir_all(&dd);
        std::fs::write(dd.join("c07_common.svh"), format!("`define WIDTH {}\nfrom_{}\n", width, w)).expect("write include");
    }
    // reference results: each call on its own fresh thread
    let refs: Arc<Vec<String>> = Arc::new((0..CALLS.len()).map(|k| on_fresh_thread(move || exec(Call(k)))).collect());
    {
        let sp = Space::of((0..CALLS.len()).collect::<Vec<_>>()).seq_range(1, tier.pick(3, 4));
        let refs = refs.clone();
        c.parts.push(Part::new("histories", sp.len(), "every sequence of calls up to the bound; last result vs fresh-thread result", move |i, acc| {
            let h = sp.get(i);
            let h2 = h.clone();
            let got = on_fresh_thread(move || {
                let mut last = String::new();
                for k in &h2 {
                    last = exec(Call(*k));
                }
                last
            });
            acc.transitions += h.len() as u64;
            acc.traces += 1;
            if h.len() >= 2 {
                acc.nontrivial += 1;
            }
            let probe = *h.last().unwrap();
            if got != refs[probe] {
                acc.class("violation");
                let names: Vec<&str> = h.iter().map(|k| CALLS[*k].0).collect();
                acc.violation(None, json!({"history": names, "sources": h.iter().map(|k| CALLS[*k].1).collect::<Vec<_>>()}), format!("after the history {:?} the call {:?} returns\n  {}\non a fresh thread it returns\n  {}", &names[..names.len() - 1], names[names.len() - 1], api::clip(&got, 600), api::clip(&refs[probe], 600)));
            } else {
                acc.class("same-as-fresh-thread");
                acc.sample(|| json!({"history": h.iter().map(|k| CALLS[*k].0).collect::<Vec<_>>()}));
            }
        }));
    }
    {
        // (b) explicit-state BFS; serial because it is one search
        let refs = refs.clone();
        let maxdepth = tier.pick(6, 10);
        c.parts.push(
            Part::new("state-bfs", 1, "BFS over thread-state fingerprints; transitions = real calls replayed on fresh threads", move |_, acc| {
                let mut seen: BTreeSet<(usize, usize, Vec<u8>)> = BTreeSet::new();
                let mut frontier: VecDeque<Vec<usize>> = VecDeque::new();
                let init = on_fresh_thread(fingerprint);
                seen.insert(init.clone());
                frontier.push_back(vec![]);
                let mut transitions = 0u64;
                let mut depth_reached = 0usize;
                let mut states_by_depth: BTreeMap<usize, usize> = BTreeMap::new();
                while let Some(hist) = frontier.pop_front() {
                    if hist.len() >= maxdepth {
                        continue;
                    }
                    for k in 0..CALLS.len() {
                        let mut h = hist.clone();
                        h.push(k);
                        let h2 = h.clone();
                        let (res, fp) = on_fresh_thread(move || {
                            let mut last = String::new();
                            for k in &h2 {
                                last = exec(Call(*k));
                            }
                            (last, fingerprint())
                        });
                        transitions += 1;
                        acc.transitions += h.len() as u64;
                        acc.traces += 1;
                        if res != refs[k] {
                            acc.class("violation");
                            let names: Vec<&str> = h.iter().map(|k| CALLS[*k].0).collect();
                            acc.violation(None, json!({"history": names}), format!("BFS: after {:?} the call {:?} returns\n  {}\nfresh thread:\n  {}", &names[..names.len() - 1], names[names.len() - 1], api::clip(&res, 600), api::clip(&refs[k], 600)));
                        }
                        if seen.insert(fp) {
                            depth_reached = depth_reached.max(h.len());
                            *states_by_depth.entry(h.len()).or_insert(0) += 1;
                            frontier.push_back(h);
                        }
                    }
                }
                acc.count("bfs states", seen.len() as u64);
                acc.count("bfs transitions", transitions);
                acc.count("bfs deepest new state at depth", depth_reached as u64);
                for s in &seen {
                    acc.set_insert("bfs_states", &format!("memo_nonempty={} directive_depth={} version_stack={:?}", s.0, s.1, s.2));
                }
                acc.nontrivial += seen.len() as u64;
                acc.class("bfs-complete");
            })
            .serial(),
        );
    }
    c
}
