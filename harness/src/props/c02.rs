//! C02 — Annex A sentences are accepted and classified under their production.

use crate::core::run::{Acc, Check, Part, Tier};
use crate::core::space::Space;
use crate::engines::svgen::{self, Gen, It, Sentence, ADVERSARIAL, LAYOUTS};
use crate::util::api::{self, clip, fnv};
use crate::util::tree::{self, TreeIndex};
use serde_json::json;
use std::collections::HashSet;
use std::sync::Arc;
use sv_parser::SyntaxTree;

pub struct SvSpace {
    pub rule_defaults: Arc<Vec<(String, Vec<It>)>>,
    pub sentences: Space<(String, Vec<It>)>,
    pub pairs: Space<(String, Vec<It>)>,
    pub capped_rules: Vec<String>,
    pub rules: usize,
    pub rules_reached: usize,
}

pub fn sv_space() -> SvSpace {
    let mut g = Gen::new(svgen::grammar_text());
    let sentences = g.sentences();
    let pairs = g.pairs();
    SvSpace { rule_defaults: Arc::new(g.rule_defaults()), sentences, pairs, capped_rules: g.capped_rules.clone(), rules: g.g.rules.len(), rules_reached: g.contexts.iter().filter(|c| c.is_some()).count() }
}

/// rendered sentences of both enumerations (layout and identifier pool rotate with the index)
pub fn sentence_texts() -> Space<String> {
    let sp = sv_space();
    let nl = LAYOUTS.len() as u64;
    let np = ADVERSARIAL.len() as u64;
    let a = sp.sentences.clone();
    let b = sp.pairs.clone();
    let na = a.len();
    Space::new(na + b.len(), move |i| {
        let (items, layout, pool) = if i < na { (a.get(i).1, (i % nl) as usize, ((i / nl) % np) as usize) } else { (b.get(i - na).1, ((i - na) % nl) as usize, 0) };
        svgen::render(&items, LAYOUTS[layout], pool).text
    })
}

const KEYWORDS_2017: &str = include_str!("../models/keywords/1800-2017.txt");

pub fn keyword_set() -> HashSet<&'static str> {
    KEYWORDS_2017.split_whitespace().collect()
}

pub const SIG_IMPLICIT_DECL: &str = "assignment-classified-as-implicit-data-declaration";
pub const SIG_TRIPLE_AND: &str = "cond-predicate-triple-and-lexed-as-logical-and-plus-reduction";
pub const SIG_OUTPUT_INIT: &str = "nonansi-output-variable-port-with-initializer-rejected";

/// `output <type> id = expr` inside a non-ANSI module: does the sentence parse and classify once
/// the initialiser(s) of output declarations are taken out?
fn output_init_sig(s: &Sentence, kw: &HashSet<&'static str>) -> bool {
    let t = &s.text;
    let Some(o) = t.find("output") else { return false };
    let Some(semi) = t[o..].find(';').map(|x| x + o) else { return false };
    let seg = &t[o..semi];
    if !seg.contains('=') {
        return false;
    }
    // cut every "= expr" up to the next ',' or the ';'
    let mut out = String::from(&t[..o]);
    let mut skip = false;
    for c in seg.chars() {
        if c == '=' {
            skip = true;
        } else if c == ',' {
            skip = false;
        }
        if !skip {
            out.push(c);
        }
    }
    out.push_str(&t[semi..]);
    let _ = kw;
    matches!(api::parse_simple(&out, false, false), Ok(Ok(_)))
}

/// one complaint of the oracle; `sig` is set when re-inspection attributes it to a known defect
pub struct Complaint {
    pub sig: Option<&'static str>,
    pub msg: String,
}

/// The C02 oracle on one rendered sentence. Positions are compared in *source* coordinates:
/// every leaf is mapped through SyntaxTree::get_origin (the documented way back to the file).
pub fn judge(tree: &SyntaxTree, ix: &TreeIndex, s: &Sentence, kw: &HashSet<&'static str>) -> (usize, Vec<Complaint>) {
    let mut out = vec![];
    // source span of every node from its non-whitespace leaves
    let src_off = |l: &sv_parser::Locate| tree.get_origin(l).map(|(_, o)| o).unwrap_or(l.offset);
    let span_of = |i: usize| -> Option<(usize, usize)> {
        let n = &ix.nodes[i];
        let mut b = None;
        let mut e = 0;
        for k in n.first_leaf..n.leaf_end {
            let (l, id) = ix.leaves[k];
            if ix.nodes[id].in_ws {
                // leaves inside a WhiteSpace below node i
                let mut j = id;
                let mut inside = false;
                loop {
                    if matches!(ix.nodes[j].node, sv_parser::RefNode::WhiteSpace(_)) {
                        inside = true;
                        break;
                    }
                    if j == i {
                        break;
                    }
                    match ix.nodes[j].parent {
                        Some(p) => j = p,
                        None => break,
                    }
                }
                if inside {
                    continue;
                }
            }
            let o = src_off(l);
            if b.is_none() {
                b = Some(o);
            }
            e = o + l.len;
        }
        b.map(|b| (b, e))
    };
    let spans: Vec<Option<(usize, usize)>> = (0..ix.nodes.len()).map(span_of).collect();
    let implicit_decl_at = |start: usize, end: usize| -> bool {
        // a DataDeclarationVariable inside the fact's span (attributes may precede it) whose
        // DataTypeOrImplicit is empty and that has no `var`
        ix.nodes.iter().enumerate().any(|(i, n)| {
            n.kind == "DataDeclarationVariable"
                && spans[i].map(|s| s.0 >= start && s.0 < end).unwrap_or(false)
                && (n.pre + 1..n.end).any(|j| ix.nodes[j].kind == "DataTypeOrImplicit" && ix.nodes[j].parent == Some(i) && ix.nodes[j].first_leaf == ix.nodes[j].leaf_end)
                && !(n.pre + 1..n.end).any(|j| ix.nodes[j].kind == "Var" && ix.nodes[j].parent == Some(i))
        })
    };
    let mut checked = 0;
    for f in &s.facts {
        let mut hits = vec![];
        for (i, n) in ix.nodes.iter().enumerate() {
            if spans[i] == Some((f.start, f.end)) && f.kinds.iter().any(|k| k == &n.kind) {
                hits.push(i);
            }
        }
        let kinds_hit: HashSet<&str> = hits.iter().map(|i| ix.nodes[*i].kind.as_str()).collect();
        let stmt_like = f.kinds.iter().any(|k| k == "Statement" || k == "BlockingAssignment" || k == "StatementOrNull");
        if hits.is_empty() {
            let txt = &s.text[f.start..f.end];
            let triple_and = f.kinds.iter().any(|k| k == "ConditionalExpression")
                && txt.find("&&&").map(|p| ix.nodes.iter().enumerate().any(|(i, n)| n.kind == "ConditionalExpression" && spans[i].map(|x| x.0) == Some(f.start + p + 2))).unwrap_or(false);
            let sig = if stmt_like && implicit_decl_at(f.start, f.end) {
                Some(SIG_IMPLICIT_DECL)
            } else if triple_and {
                Some(SIG_TRIPLE_AND)
            } else {
                None
            };
            out.push(Complaint { sig, msg: format!("no {} node spans {:?}", f.kinds.join("|"), clip(&s.text[f.start..f.end], 100)) });
            continue;
        }
        if hits.len() != kinds_hit.len() {
            out.push(Complaint { sig: None, msg: format!("{} nodes of kind {} span {:?} (expected exactly one)", hits.len(), f.kinds.join("|"), clip(&s.text[f.start..f.end], 100)) });
            continue;
        }
        if let Some(want) = &f.ident {
            let top = hits[0];
            let at = match &f.ident_under {
                None => Some(top),
                // shallowest descendant of that kind, the last one among equals
                Some(k) => (top..ix.nodes[top].end).filter(|j| &ix.nodes[*j].kind == k).min_by_key(|j| (ix.nodes[*j].depth, usize::MAX - *j)),
            };
            let got = at.and_then(|a| tree::first_identifier(tree, ix, a));
            if got != Some(want.as_str()) {
                out.push(Complaint { sig: None, msg: format!("{} spanning {:?} carries identifier {:?}, the source gave it {:?}", ix.nodes[top].kind, clip(&s.text[f.start..f.end], 80), got, want) });
                continue;
            }
        }
        checked += 1;
    }
    // every identifier / keyword token is exactly one leaf
    let mut leaf_at = std::collections::HashMap::new();
    for (l, id) in &ix.leaves {
        if !ix.nodes[*id].in_ws {
            leaf_at.insert(src_off(l), (l.len, *id));
        }
    }
    for (b, e, is_id) in &s.toks {
        let t = &s.text[*b..*e];
        let is_kw = !*is_id && kw.contains(t);
        if !*is_id && !is_kw {
            continue;
        }
        match leaf_at.get(b) {
            Some((len, id)) if *len == e - b => {
                let parent = ix.nodes[*id].parent.map(|p| ix.nodes[p].kind.as_str()).unwrap_or("");
                if *is_id && parent != "SimpleIdentifier" && parent != "EscapedIdentifier" {
                    out.push(Complaint { sig: None, msg: format!("identifier {:?} is a leaf of {} (expected SimpleIdentifier / EscapedIdentifier)", t, parent) });
                } else if is_kw && parent != "Keyword" {
                    out.push(Complaint { sig: None, msg: format!("keyword {:?} is a leaf of {} (expected Keyword)", t, parent) });
                } else {
                    checked += 1;
                }
            }
            Some((len, _)) => out.push(Complaint { sig: None, msg: format!("token {:?} at {} is lexed as a leaf of length {}", t, b, len) }),
            None => out.push(Complaint { sig: None, msg: format!("token {:?} at {} does not start a leaf", t, b) }),
        }
    }
    (checked, out)
}

fn one(acc: &mut Acc, rule: &str, items: &[It], layout: &str, pool: usize, kw: &HashSet<&'static str>) {
    one_with(acc, rule, items, layout, pool, kw, None)
}

fn one_with(acc: &mut Acc, rule: &str, items: &[It], layout: &str, pool: usize, kw: &HashSet<&'static str>, over: Option<(usize, &str)>) {
    let s = svgen::render_with(items, layout, pool, over);
    acc.transitions += 1;
    acc.set_insert("rules_exercised", rule);
    let case = || json!({"rule": rule, "layout": layout, "identifier_pool": ADVERSARIAL[pool % ADVERSARIAL.len()], "source": s.text});
    match api::parse_simple(&s.text, false, false) {
        Ok(Ok((t, _))) => {
            acc.traces += 1;
            let r = api::guarded(|| {
                let ix = tree::index(&t)?;
                Ok::<_, String>(judge(&t, &ix, &s, kw))
            });
            match r {
                Ok(Ok((n, complaints))) => {
                    acc.count("facts and tokens checked", n as u64);
                    if complaints.is_empty() {
                        acc.class("accepted-and-classified");
                        acc.distinct(fnv(s.text.as_bytes()));
                        acc.sample(|| json!({"rule": rule, "source": clip(&s.text, 200), "facts": s.facts.iter().map(|f| format!("{}{}", f.kinds.join("|"), f.ident.as_ref().map(|i| format!("#{}", i)).unwrap_or_default())).collect::<Vec<_>>()}));
                    } else {
                        acc.class("violation");
                        // known only if every complaint about this sentence is attributed
                        let all_known = complaints.iter().all(|c| c.sig.is_some());
                        let sig = if all_known { complaints[0].sig.map(|x| x.to_string()) } else { memo_sig(&s, kw) };
                        let msg = complaints.iter().filter(|c| all_known || c.sig.is_none()).map(|c| c.msg.clone()).collect::<Vec<_>>().join("; ");
                        acc.violation(sig, case(), format!("[{}] {}\nsource: {:?}", rule, clip(&msg, 400), clip(&s.text, 500)));
                    }
                }
                Ok(Err(m)) | Err(m) => {
                    acc.class("violation");
                    acc.violation(None, case(), format!("[{}] {}\nsource: {:?}", rule, m, clip(&s.text, 500)));
                }
            }
        }
        Ok(Err(e)) => {
            acc.class("violation");
            let sig = if output_init_sig(&s, kw) { Some(SIG_OUTPUT_INIT.to_string()) } else { memo_sig(&s, kw) };
            acc.violation(sig, case(), format!("[{}] sentence of the reference grammar is rejected: {}\nsource: {:?}", rule, api::err_sig(&e), clip(&s.text, 500)));
        }
        Err(p) => {
            acc.class("violation");
            acc.violation(None, case(), format!("[{}] panic {}\nsource: {:?}", rule, p, clip(&s.text, 500)));
        }
    }
}

/// does the sentence pass once nothing is evicted from the memo table? (known defect P10)
fn memo_sig(s: &Sentence, kw: &HashSet<&'static str>) -> Option<String> {
    let (r, _) = api::with_policy(api::Policy::Fifo(None), false, || api::parse_simple(&s.text, false, false));
    match r {
        Ok(Ok((t, _))) => {
            let ix = tree::index(&t).ok()?;
            if judge(&t, &ix, s, kw).1.is_empty() {
                Some(api::memo_sig_for(&s.text))
            } else {
                None
            }
        }
        _ => None,
    }
}

pub fn build(tier: Tier) -> Check<'static> {
    let mut c = Check::new("C02", tier, "6/C02");
    let sp = sv_space();
    c.rule = format!(
        "reference grammar of {} rules ({} reachable): for every rule every combination of its own choices (others by default) in its shortest context, plus every ordered pair of element alternatives of every repetition; x layouts x identifier pools; non-trivial = accepted sentence, distinct by text hash. Rules whose combinations exceed 30000 vary one part at a time: {:?}",
        sp.rules, sp.rules_reached, sp.capped_rules
    );
    c.assumptions = vec![
        "the reference grammar (models/sv_grammar.txt) and its facts were written from IEEE 1800-2017 Annex A; facts are attached only where Annex A leaves one answer or the admissible kinds are listed".into(),
        "keyword list models/keywords/1800-2017.txt typed from Annex B".into(),
    ];
    let kw = Arc::new(keyword_set());
    let nl = LAYOUTS.len() as u64;
    let np = ADVERSARIAL.len() as u64;
    {
        let (s, kw) = (sp.sentences.clone(), kw.clone());
        let full = tier == Tier::Thorough;
        let n = s.len() * if full { nl * np } else { 1 };
        c.parts.push(Part::new("rule-variants", n, "every rule x every local choice combination; quick: layout and identifier pool rotate with the index, thorough: x 3 layouts x 12 identifier pools", move |i, acc| {
            let (idx, layout, pool) = if full { (i / (nl * np), ((i / np) % nl) as usize, (i % np) as usize) } else { (i, (i % nl) as usize, ((i / nl) % np) as usize) };
            let (rule, items) = s.get(idx);
            one(acc, &rule, &items, LAYOUTS[layout], pool, &kw);
        }));
    }
    {
        let (s, kw) = (sp.pairs.clone(), kw.clone());
        let full = tier == Tier::Thorough;
        let n = s.len() * if full { nl } else { 1 };
        c.parts.push(Part::new("adjacent-pairs", n, "every ordered pair of element alternatives of every repetition (module items, statements, ports, ...)", move |i, acc| {
            let (idx, layout) = if full { (i / nl, (i % nl) as usize) } else { (i, (i % nl) as usize) };
            let (rule, items) = s.get(idx);
            one(acc, &rule, &items, LAYOUTS[layout], 0, &kw);
        }));
    }
    {
        // every identifier slot of every rule's default sentence x every reserved word + suffix
        let defs = sp.rule_defaults.clone();
        let mut slots: Vec<(usize, usize)> = vec![];
        for (ri, (_, items)) in defs.iter().enumerate() {
            for k in 1..=svgen::binding_count(items) {
                slots.push((ri, k));
            }
        }
        let slots = Arc::new(slots);
        let mut words: Vec<&'static str> = kw.iter().copied().collect();
        words.sort();
        let words = Arc::new(words);
        let suffixes: Vec<&'static str> = if tier == Tier::Thorough { vec!["1", "_", "$x", "x"] } else { vec!["1", "_"] };
        let (nw, ns) = (words.len() as u64, suffixes.len() as u64);
        let n = slots.len() as u64 * nw * ns;
        let kw2 = kw.clone();
        c.parts.push(Part::new("keyword-prefixed-identifiers", n, "every identifier slot of every rule's default sentence x each of the 248 reserved words x suffix {1, _} (thorough: {1, _, $x, x}): the name is an identifier, never a keyword followed by something", move |i, acc| {
            let (ri, k) = slots[(i / (nw * ns)) as usize];
            let w = words[((i / ns) % nw) as usize];
            let name = format!("{}{}", w, suffixes[(i % ns) as usize]);
            if kw2.contains(name.as_str()) {
                acc.class("name-is-itself-reserved");
                return;
            }
            let (rule, items) = &defs[ri];
            one_with(acc, rule, items, " ", 0, &kw2, Some((k, &name)));
        }));
    }
    c
}
