//! C01 — the concrete syntax tree is lossless: leaves tile the preprocessed text.

use crate::core::run::{Acc, Check, Part, Tier};
use crate::corpus;
use crate::engines::soup;
use crate::util::api::{self, clip, fnv, Defs};
use crate::util::layout::layout;
use crate::util::tree;
use serde_json::json;
use std::path::{Path, PathBuf};
use std::sync::Arc;

pub const TRIVIA: [&str; 10] = [
    " /* é\n * two\n * lines */ ",
    "\n\n// c\n\t",
    " ",
    "\t",
    "\r\n",
    " /* é */ ",
    " // é\n",
    " `celldefine ",
    " `timescale 1ns/1ps\n",
    " `define X__ \"é\" \n",
];

/// Parse `src` (through the public string entry point) and check the tiling invariant on
/// the result. Returns the class of the case.
pub fn check_source(acc: &mut Acc, src: &str, lib: bool, incomplete: bool, what: &str) -> &'static str {
    let d = Defs::new();
    let incs: Vec<PathBuf> = vec![];
    let path = Path::new("top.sv");
    acc.transitions += 2;
    let text = match api::pp_str(src, path, &d, &incs, false, false) {
        Ok(Ok((pt, _))) => pt.text().to_string(),
        Ok(Err(_)) => return "preprocess-error",
        Err(_) => return "preprocess-panic",
    };
    let r = if lib {
        api::parse_lib_str(src, path, &d, &incs, false, incomplete)
    } else {
        api::parse_sv_str(src, path, &d, &incs, false, incomplete)
    };
    let tree = match r {
        Ok(Ok((t, _))) => t,
        Ok(Err(_)) => return "rejected",
        Err(_) => return "parse-panic",
    };
    let mode = format!("{}{}", if lib { "lib" } else { "sv" }, if incomplete { "/incomplete" } else { "/strict" });
    let case = || json!({"what": what, "mode": mode, "source": clip(src, 2000)});
    let res = api::guarded(|| {
        let ix = tree::index(&tree)?;
        let t = tree::check_tiling(&tree, &ix, &text, !incomplete)?;
        tree::check_try_locate(&ix)?;
        Ok::<_, String>((t, ix.nodes.iter().map(|n| n.kind.clone()).collect::<std::collections::BTreeSet<_>>()))
    });
    match res {
        Ok(Ok((t, kinds))) => {
            acc.traces += 1;
            if t.leaves > 0 {
                acc.distinct(fnv(format!("{}\u{0}{}", mode, src).as_bytes()));
            }
            acc.count("nodes", t.nodes as u64);
            acc.count("leaves", t.leaves as u64);
            for k in kinds {
                acc.set_insert("node_kinds_seen", &k);
            }
            acc.sample(|| json!({"mode": mode, "source": clip(src, 200), "leaves": t.leaves, "nodes": t.nodes}));
            if incomplete && t.covered < text.len() {
                "accepted-prefix"
            } else {
                "accepted"
            }
        }
        Ok(Err(msg)) => {
            acc.violation(None, case(), format!("tiling invariant broken ({}): {}\nsource: {:?}", mode, msg, clip(src, 600)));
            "violation"
        }
        Err(p) => {
            acc.violation(None, case(), format!("panic while walking the tree ({}): {}\nsource: {:?}", mode, p, clip(src, 600)));
            "violation"
        }
    }
}

/// accepted strict tree of a source, as (preprocessed text, layout)
pub fn layout_of(src: &str, lib: bool) -> Option<(String, crate::util::layout::Layout)> {
    let r = api::parse_simple(src, lib, false).ok()?.ok()?;
    let (t, _) = r;
    let ix = tree::index(&t).ok()?;
    let text = tree::text_from_leaves(&t, &ix)?;
    let lay = layout(&ix, text.len());
    Some((text, lay))
}

pub fn build(tier: Tier) -> Check<'static> {
    let mut c = Check::new("C01", tier, "6/C01");
    c.rule = "every case = (source text, grammar, mode) parsed through parse_sv_str/parse_lib_str; non-trivial = accepted with at least one leaf; distinct by hash of (mode, source)".into();
    c.assumptions = vec![
        "the preprocessed text used as the reference is the one preprocess_str returns for the same arguments".into(),
        "productions reached by no seed / sentence / soup are not exercised (see sets.node_kinds_seen)".into(),
    ];
    let seeds = Arc::new(corpus::load());
    // part 1: seeds in every mode
    {
        let s = seeds.clone();
        c.parts.push(Part::new(
            "seeds",
            (s.len() * 2) as u64,
            "each vendored seed, strict and incomplete mode, in its own grammar",
            move |i, acc| {
                let seed = &s[(i / 2) as usize];
                let cls = check_source(acc, &seed.text, seed.is_lib(), i % 2 == 1, &format!("seed {}", seed.id));
                acc.class(cls);
            },
        ));
    }
    // part 2: every seed with ALL plain gaps replaced by each trivia form
    {
        let s = seeds.clone();
        c.parts.push(Part::new(
            "seeds-all-gaps",
            (s.len() * TRIVIA.len()) as u64,
            "each seed with every plain inter-token gap replaced by one of 8 trivia forms (non-ASCII comments, kept directives)",
            move |i, acc| {
                let seed = &s[(i as usize) / TRIVIA.len()];
                let t = TRIVIA[(i as usize) % TRIVIA.len()];
                let Some((text, lay)) = layout_of(&seed.text, seed.is_lib()) else {
                    acc.class("seed-not-accepted");
                    return;
                };
                let m = lay.render(&text, |k, g| if g.plain && g.end > g.start && k > 0 { Some(t.to_string()) } else { None });
                let cls = check_source(acc, &m, seed.is_lib(), false, &format!("seed {} all gaps -> {:?}", seed.id, t));
                acc.class(cls);
            },
        ));
    }
    // part 3 (thorough): every single plain gap of every seed x trivia
    if tier == Tier::Thorough {
        let s = seeds.clone();
        // index space: seed x gap slot (up to 400 slots) x trivia ; slots beyond the seed's gaps are no-ops
        let mut table: Vec<(usize, usize)> = vec![];
        for (si, seed) in s.iter().enumerate() {
            if let Some((_, lay)) = layout_of(&seed.text, seed.is_lib()) {
                for (k, g) in lay.gaps.iter().enumerate() {
                    if k > 0 && g.plain && g.end > g.start {
                        table.push((si, k));
                    }
                }
            }
        }
        let table = Arc::new(table);
        let n = table.len() * TRIVIA.len();
        c.parts.push(Part::new(
            "seeds-single-gap",
            n as u64,
            "each seed x each single plain gap x each of 8 trivia forms",
            move |i, acc| {
                let (si, k) = table[(i as usize) / TRIVIA.len()];
                let t = TRIVIA[(i as usize) % TRIVIA.len()];
                let seed = &s[si];
                let Some((text, lay)) = layout_of(&seed.text, seed.is_lib()) else { return };
                let m = lay.render(&text, |kk, _| if kk == k { Some(t.to_string()) } else { None });
                let cls = check_source(acc, &m, seed.is_lib(), false, &format!("seed {} gap {} -> {:?}", seed.id, k, t));
                acc.class(cls);
            },
        ));
    }
    // part 4: token soups (those the tree accepts are judged)
    {
        // the library-map grammar has its own terminals (bare file paths, -incdir): its own soup
        let alpha: [&'static str; 12] = ["library", "include", "config", "endconfig", "l", "a.v", "\"q.v\"", ",", ";", "-incdir", "design", "// c\n"];
        let sp = soup::strings(&alpha, 0, tier.pick(4, 5), &[" "]);
        let n = sp.len();
        c.parts.push(Part::new("library-soup", n * 2, "all sequences of <= 4 (quick) / 5 (thorough) of 12 library-map pieces (keywords, names, bare and quoted paths, separators, -incdir, a comment) joined by a blank, strict and incomplete", move |i, acc| {
            let src = sp.get(i / 2);
            let cls = check_source(acc, &src, true, i % 2 == 1, "library soup");
            acc.class(cls);
        }));
    }
    {
        let sp = soup::sigma_t(0, tier.pick(3, 4));
        let n = sp.len();
        c.parts.push(Part::new(
            "token-soup",
            n * 2,
            "all sequences of <= 3 (quick) / 4 (thorough) tokens of the 32-token alphabet, joined by ' ' or '', strict and incomplete",
            move |i, acc| {
                let src = sp.get(i / 2);
                let cls = check_source(acc, &src, false, i % 2 == 1, "token soup");
                acc.class(cls);
            },
        ));
    }
    // part: reference-grammar sentences (every production alternative, every adjacent pair)
    {
        let sp = crate::props::c02::sentence_texts();
        let n = sp.len();
        c.parts.push(Part::new(
            "grammar-sentences",
            n * 2,
            "every sentence of the C02 reference-grammar enumeration (rule variants + adjacent pairs), strict and incomplete",
            move |i, acc| {
                let src = sp.get(i / 2);
                let cls = check_source(acc, &src, false, i % 2 == 1, "reference grammar sentence");
                acc.class(cls);
            },
        ));
    }
    // part: the raw parser seam on directive-free text (no SyntaxTree wrapper, no preprocessor)
    {
        let s = seeds.clone();
        c.parts.push(Part::new(
            "raw-parser-seam",
            s.len() as u64,
            "sv_parser / lib_parser called directly on the preprocessed text of each seed: leaves of the returned SourceText / LibraryText tile the input",
            move |i, acc| {
                use sv_parser::RefNode;
                use sv_parser_parser::{lib_parser, sv_parser, Span, SpanInfo};
                let seed = &s[i as usize];
                let text = match api::pp_str(&seed.text, Path::new("top.sv"), &Defs::new(), &[] as &[PathBuf], false, false) {
                    Ok(Ok((pt, _))) => pt.text().to_string(),
                    _ => return,
                };
                acc.transitions += 1;
                let leaves: Option<Vec<(usize, usize, u32)>> = api::guarded(|| {
                    let span = Span::new_extra(text.as_str(), SpanInfo::default());
                    if seed.is_lib() {
                        lib_parser(span).ok().map(|(_, t)| (&t).into_iter().filter_map(|n| if let RefNode::Locate(l) = n { Some((l.offset, l.len, l.line)) } else { None }).collect())
                    } else {
                        sv_parser(span).ok().map(|(_, t)| (&t).into_iter().filter_map(|n| if let RefNode::Locate(l) = n { Some((l.offset, l.len, l.line)) } else { None }).collect())
                    }
                })
                .unwrap_or(None);
                let Some(leaves) = leaves else {
                    acc.class("raw-rejected");
                    return;
                };
                acc.traces += 1;
                let mut pos = 0usize;
                for (k, (o, n, line)) in leaves.iter().enumerate() {
                    let want_line = 1 + text.as_bytes()[..*o.min(&text.len())].iter().filter(|b| **b == b'\n').count() as u32;
                    if *o != pos || *n == 0 || *line != want_line {
                        acc.class("violation");
                        acc.violation(None, json!({"seed": seed.id, "text": clip(&text, 1500)}), format!("raw seam: leaf #{} = (offset {}, len {}, line {}) but the previous leaf ended at {} and {} newline(s) precede it\ntext: {:?}", k, o, n, line, pos, want_line - 1, clip(&text, 400)));
                        return;
                    }
                    pos = o + n;
                }
                if pos != text.len() {
                    acc.class("violation");
                    acc.violation(None, json!({"seed": seed.id, "text": clip(&text, 1500)}), format!("raw seam: leaves end at {} of {} bytes", pos, text.len()));
                    return;
                }
                acc.class("raw-tiles");
                acc.distinct(fnv(format!("raw{}", text).as_bytes()));
            },
        ));
    }
    // part 5: library-map sentences
    {
        let sp = lib_sentences(tier.pick(2, 3));
        let n = sp.len();
        c.parts.push(Part::new(
            "lib-sentences",
            n * 2,
            "all sequences of <= 2 (quick) / 3 (thorough) library descriptions of a 14-form reference list x layouts, strict and incomplete",
            move |i, acc| {
                let src = sp.get(i / 2);
                let cls = check_source(acc, &src, true, i % 2 == 1, "library sentence");
                acc.class(cls);
            },
        ));
    }
    c
}

/// reference sentences of the library-map grammar (IEEE 1800-2017 33.3)
pub fn lib_sentences(max: usize) -> crate::core::space::Space<String> {
    use crate::core::space::Space;
    let descr: Vec<&'static str> = vec![
        "library l a.v;",
        "library l \"a.v\";",
        "library l a.v, b.v;",
        "library l ./src/*.v -incdir inc;",
        "library l a.v -incdir \"i1\", i2;",
        "include other.map;",
        "include \"o.map\";",
        "config c; design top; endconfig",
        "config c; design l.top; default liblist l; endconfig",
        "config c; design top; instance top.u use l.m; endconfig : c",
        "config c; design top; cell m liblist a b; endconfig",
        ";",
        "/* é */",
        "// é\n",
    ];
    let d = Space::of(descr);
    let seqs = d.seq_range(0, max);
    let layouts = Space::of(vec![" ", "\n", " /*x*/ "]);
    layouts.product(seqs).map(|(j, v)| {
        let mut s = v.join(j);
        s.push_str(j);
        s
    })
}
