//! Shared machinery of the preprocessor properties (C03, C04, C05, C10, C11, C18): program
//! profiles, running a program on the model and on the implementation, and the oracles.

use crate::core::run::Acc;
use crate::core::space::Space;
use crate::models::lexref;
use crate::models::ppref::*;
use crate::util::api::{self, clip, err_sig, Defs};
use serde_json::json;
use std::collections::BTreeMap;
use std::path::{Path, PathBuf};
use sv_parser::{Define, DefineText, Error};

pub const SIG_P2: &str = "elsif-tests-ifdef-identifier-for-predefined";
pub const SIG_P1_EXP: &str = "usage-directly-after-string-inside-expansion-emitted-raw-and-expanded";

#[derive(Clone, Copy, Default)]
pub struct Oracles {
    /// output lexemes and errors (C04 / C05 / C10)
    pub lexemes: bool,
    /// returned define table (C11)
    pub table: bool,
    /// strip_comments run agrees and holds no comments (C18)
    pub strip: bool,
    /// per-byte origins (C03)
    pub origins: bool,
}

#[derive(Clone, Debug)]
pub struct Prog {
    pub items: Vec<Item>,
    pub layout: Layout,
    /// caller-supplied defines: (name, body or None)
    pub pre: Vec<(String, Option<String>)>,
}

/// a caller-supplied name may be written "F(x,y=2)": a macro with formals (and defaults)
fn split_formals(k: &str) -> (String, Vec<(String, Option<String>)>) {
    match k.split_once('(') {
        None => (k.to_string(), vec![]),
        Some((n, rest)) => {
            let inner = rest.trim_end_matches(')');
            let f = inner
                .split(',')
                .map(|a| match a.split_once('=') {
                    Some((x, d)) => (x.trim().to_string(), Some(d.trim().to_string())),
                    None => (a.trim().to_string(), None),
                })
                .collect();
            (n.to_string(), f)
        }
    }
}

pub fn to_defs(pre: &[(String, Option<String>)]) -> Defs {
    let mut d = Defs::new();
    for (k, v) in pre {
        let (name, formals) = split_formals(k);
        if !formals.is_empty() {
            d.insert(name.clone(), Some(Define::new(name, formals, v.as_ref().map(|b| DefineText::new(b.clone(), None)))));
            continue;
        }
        match v {
            None => {
                d.insert(k.clone(), None);
            }
            Some(b) => {
                d.insert(k.clone(), Some(Define::new(k.clone(), vec![], Some(DefineText::new(b.clone(), None)))));
            }
        }
    }
    d
}

pub fn to_table(pre: &[(String, Option<String>)]) -> Table {
    let mut t = Table::new();
    for (k, v) in pre {
        let (name, formals) = split_formals(k);
        if !formals.is_empty() {
            t.insert(name.clone(), Some(Def { name, formals, body: v.clone(), origin: None }));
            continue;
        }
        match v {
            None => {
                t.insert(k.clone(), None);
            }
            Some(b) => {
                t.insert(k.clone(), Some(Def { name: k.clone(), formals: vec![], body: Some(b.clone()), origin: None }));
            }
        }
    }
    t
}

pub fn perr_sig(e: &PErr) -> String {
    match e {
        PErr::DefineNotFound(n) => format!("DefineNotFound({:?})", n),
        PErr::DefineArgNotFound(n) => format!("DefineArgNotFound({:?})", n),
        PErr::DefineNoArgs(n) => format!("DefineNoArgs({:?})", n),
        PErr::ExceedRecursiveLimit => "ExceedRecursiveLimit".into(),
        PErr::IncludeLine => "IncludeLine".into(),
        PErr::IncludeFileMissing(p) => format!("File({:?},NotFound)", PathBuf::from(p)),
        PErr::Include(e) => format!("Include({})", perr_sig(e)),
        PErr::Abstain => "<model abstains>".into(),
    }
}

/// canonical form of a define table for comparison: name -> (formals, trimmed body)
pub fn table_sig(t: &Table) -> Vec<String> {
    t.iter()
        .filter(|(k, _)| !api::is_cov(k))
        .map(|(k, v)| match v {
            None => format!("{} = <none>", k),
            Some(d) => format!(
                "{} ({}) {:?}",
                k,
                d.formals.iter().map(|(n, dv)| match dv { Some(x) => format!("{}={}", n, x.trim()), None => n.clone() }).collect::<Vec<_>>().join(","),
                d.body.as_deref().unwrap_or("").trim()
            ),
        })
        .collect()
}

pub fn defs_table_sig(d: &Defs) -> Vec<String> {
    let mut v: Vec<String> = d
        .iter()
        .filter(|(k, _)| !api::is_cov(k))
        .map(|(k, v)| match v {
            None => format!("{} = <none>", k),
            Some(d) => format!(
                "{} ({}) {:?}",
                k,
                d.arguments.iter().map(|(n, dv)| match dv { Some(x) => format!("{}={}", n, x.trim()), None => n.clone() }).collect::<Vec<_>>().join(","),
                d.text.as_ref().map(|t| t.text.as_str()).unwrap_or("").trim()
            ),
        })
        .collect();
    v.sort();
    v
}

pub struct ModelOut {
    pub result: Result<(), PErr>,
    pub pieces: Vec<Piece>,
    pub table: Table,
    pub rendered: Rendered,
}

pub fn run_model(p: &Prog, emu: Emulate) -> ModelOut {
    let rendered = render(&p.items, p.layout, "t");
    let mut files = BTreeMap::new();
    files.insert("top.sv".to_string(), (p.items.clone(), rendered.clone()));
    let vfs = Vfs { files };
    let resolve = |_: &str| -> Option<String> { None };
    let mut it = Interp::new(&vfs, &resolve, to_table(&p.pre));
    it.emu = emu;
    let result = it.run_file("top.sv", 0);
    ModelOut { result, pieces: std::mem::take(&mut it.out), table: std::mem::take(&mut it.table), rendered }
}

fn contains_abstain(r: &Result<(), PErr>) -> bool {
    let mut e = match r {
        Err(e) => e,
        Ok(()) => return false,
    };
    loop {
        match e {
            PErr::Abstain => return true,
            PErr::Include(i) => e = i,
            _ => return false,
        }
    }
}

/// a usage with more actuals than the macro (as last defined before it at top level) has formals
fn surplus_actuals(items: &[Item]) -> bool {
    let mut arity: BTreeMap<&str, usize> = BTreeMap::new();
    for it in items {
        match it {
            Item::Define { name, formals, .. } => {
                arity.insert(name.as_str(), formals.as_ref().map(|f| f.len()).unwrap_or(0));
            }
            Item::Usage { name, args: Some(a) } => {
                if let Some(n) = arity.get(name.as_str()) {
                    if *n > 0 && a.len() > *n {
                        return true;
                    }
                }
            }
            _ => {}
        }
    }
    false
}

fn sig_lexemes(text: &str) -> Vec<String> {
    lexref::significant(text).unwrap_or_else(|_| vec![format!("<unlexable output {:?}>", clip(text, 60))])
}

/// Run one program through model and implementation and apply the selected oracles.
pub fn check_prog(acc: &mut Acc, p: &Prog, or: Oracles, what: &str) {
    let m = run_model(p, Emulate::default());
    if contains_abstain(&m.result) {
        acc.class("model-abstains");
        return;
    }
    if surplus_actuals(&p.items) {
        acc.class("outside-statement-surplus-actuals");
        return;
    }
    let src = &m.rendered.text;
    let defs = to_defs(&p.pre);
    let path = Path::new("top.sv");
    let incs: Vec<PathBuf> = vec![];
    let case = || json!({"what": what, "source": src, "predefined": p.pre, "layout": format!("{:?}", p.layout)});
    acc.transitions += 1;
    let r = api::pp_str(src, path, &defs, &incs, false, false);
    let r = match r {
        Ok(r) => r,
        Err(pn) => {
            acc.class("violation");
            acc.violation(None, case(), format!("preprocess_str panicked: {}\nsource:\n{}", pn, src));
            return;
        }
    };
    acc.traces += 1;
    // attribution of a lexeme / error mismatch to the known `elsif defect
    let p2 = |acc: &mut Acc, got_lex: Option<&Vec<String>>, got_err: Option<&str>| -> Option<String> {
        let _ = acc;
        for (emu, sig) in [
            (Emulate { elsif_tests_ifid_for_predefined: true, ..Default::default() }, SIG_P2),
            (Emulate { literal_then_usage_raw: true, ..Default::default() }, SIG_P1_EXP),
        ] {
            let m2 = run_model(p, emu);
            let hit = match (&m2.result, got_lex, got_err) {
                (Ok(()), Some(g), None) => {
                    let want: Vec<String> = expected_lexemes(&m2.pieces).into_iter().map(|x| x.0).collect();
                    &want == g
                }
                (Err(e), None, Some(ge)) => perr_sig(e) == ge,
                _ => false,
            };
            if hit {
                return Some(sig.to_string());
            }
        }
        None
    };
    match (&m.result, &r) {
        (Ok(()), Ok((pt, d))) => {
            acc.class("ok");
            acc.nontrivial += 1;
            acc.sample(|| json!({"source": clip(src, 300), "predefined": p.pre, "output": clip(pt.text(), 200)}));
            let want: Vec<(String, Prov, usize)> = expected_lexemes(&m.pieces);
            let got = sig_lexemes(pt.text());
            let mut lex_ok = true;
            if or.lexemes || or.origins {
                let w: Vec<&String> = want.iter().map(|x| &x.0).collect();
                if w.len() != got.len() || w.iter().zip(got.iter()).any(|(a, b)| *a != b) {
                    lex_ok = false;
                    if or.lexemes {
                        acc.class("violation");
                        let sig = p2(acc, Some(&got), None);
                        acc.violation(sig, case(), format!("output tokens differ\nexpected: {:?}\ngot:      {:?}\nsource:\n{}", w, got, src));
                    }
                }
            }
            if or.table {
                let a = table_sig(&m.table);
                let b = defs_table_sig(d);
                if a != b {
                    acc.class("violation");
                    let m2 = run_model(p, Emulate { elsif_tests_ifid_for_predefined: true, ..Default::default() });
                    let sig = if table_sig(&m2.table) == b { Some(SIG_P2.to_string()) } else { None };
                    acc.violation(sig, case(), format!("returned define table differs\nexpected: {:?}\ngot:      {:?}\nsource:\n{}", a, b, src));
                }
            }
            if or.origins && lex_ok {
                if let Err(mut msg) = crate::props::c03::check_origins(pt, src, &want, &m, path) {
                    acc.class("violation");
                    if msg.0.is_none() {
                        // same tokens but taken from another branch: the `elsif defect (P2)?
                        let m2 = run_model(p, Emulate { elsif_tests_ifid_for_predefined: true, ..Default::default() });
                        if m2.result.is_ok() {
                            let want2 = expected_lexemes(&m2.pieces);
                            if want2.iter().map(|x| &x.0).eq(got.iter()) && crate::props::c03::check_origins(pt, src, &want2, &m2, path).is_ok() {
                                msg.0 = Some(SIG_P2.to_string());
                            }
                        }
                    }
                    acc.violation(msg.0, case(), format!("{}\nsource:\n{}\noutput: {:?}", msg.1, src, pt.text()));
                }
            }
            if or.strip {
                strip_oracle(acc, p, src, &defs, Ok((pt, d)), &case);
            }
        }
        (Err(e), Err(ge)) => {
            acc.class("error-as-predicted");
            acc.nontrivial += 1;
            let (a, b) = (perr_sig(e), err_sig(ge));
            if (or.lexemes || or.table) && a != b {
                acc.class("violation");
                let sig = p2(acc, None, Some(&b));
                acc.violation(sig, case(), format!("error differs: expected {}, got {}\nsource:\n{}", a, b, src));
            }
            if or.strip {
                strip_oracle(acc, p, src, &defs, Err(b), &case);
            }
        }
        (Ok(()), Err(ge)) => {
            if or.lexemes || or.table {
                acc.class("violation");
                let b = err_sig(ge);
                let sig = p2(acc, None, Some(&b));
                acc.violation(sig, case(), format!("unexpected error {}\nsource:\n{}", b, src));
            }
        }
        (Err(e), Ok((pt, _))) => {
            if or.lexemes || or.table {
                acc.class("violation");
                let got = sig_lexemes(pt.text());
                let sig = p2(acc, Some(&got), None);
                acc.violation(sig, case(), format!("expected error {}, got output {:?}\nsource:\n{}", perr_sig(e), clip(pt.text(), 200), src));
            }
        }
    }
}

pub const SIG_STRIP_P1D: &str = "directive-directly-after-string-or-escaped-identifier-emitted-raw-and-processed";
/// The known finding F5 is narrow: tokens fuse under strip_comments because a comment, or the white
/// space attached to a conditional / `undef directive, was their only separator. It is recognised by
/// repairing the input: with a blank put in front of every comment, behind every block comment and in
/// front of every conditional / `undef directive the two runs must agree (and the padded plain run must
/// give the original tokens). Anything else that fuses tokens (e.g. around a macro usage) is not F5.
fn f5_repaired_input_agrees(src: &str, defs: &Defs, plain_tokens: &[String]) -> bool {
    let Ok(lx) = lexref::lex_opts(src, true) else { return false };
    let allowed = ["`ifdef", "`ifndef", "`elsif", "`else", "`endif", "`undef", "`undefineall"];
    let mut padded = String::new();
    for l in &lx {
        let w = &src[l.b..l.e];
        match l.k {
            lexref::K::LineCmt => {
                padded.push(' ');
                padded.push_str(w);
            }
            lexref::K::BlockCmt => {
                padded.push(' ');
                padded.push_str(w);
                padded.push(' ');
            }
            lexref::K::Bt if allowed.contains(&w) => {
                padded.push(' ');
                padded.push_str(w);
            }
            _ => padded.push_str(w),
        }
    }
    let run = |strip: bool| match api::pp_str(&padded, Path::new("top.sv"), defs, &[] as &[PathBuf], false, strip) {
        Ok(Ok((pt, _))) => Some(sig_lexemes(pt.text())),
        _ => None,
    };
    match (run(false), run(true)) {
        (Some(a), Some(b)) => a == b && a == plain_tokens,
        _ => false,
    }
}

/// F1 under strip_comments is recognised by repairing the input: with every string literal / escaped
/// identifier (those that are not the argument of `include, `line, `begin_keywords, `pragma) turned into
/// a plain word the two runs must agree - if need be after the F5 / F13 repairs as well
fn p1d_repaired_agrees(src: &str, defs: &Defs) -> bool {
    let Some((repaired, k)) = literals_outside_defines_replaced(src) else { return false };
    if k == 0 {
        return true;
    }
    let run = |t: &str, strip: bool| match api::pp_str(t, Path::new("top.sv"), defs, &[] as &[PathBuf], false, strip) {
        Ok(Ok((pt, _))) => Some(sig_lexemes(pt.text())),
        _ => None,
    };
    match (run(&repaired, false), run(&repaired, true)) {
        (Some(a), Some(b)) => a == b || (a.concat() == b.concat() && f5_repaired_input_agrees(&repaired, defs, &a)) || f13_repaired_agrees(&repaired, defs) || crate::props::c06::literal_then_directive(&plain_text(&repaired, defs)),
        _ => false,
    }
}

fn plain_text(src: &str, defs: &Defs) -> String {
    match api::pp_str(src, Path::new("top.sv"), defs, &[] as &[PathBuf], false, false) {
        Ok(Ok((pt, _))) => pt.text().to_string(),
        _ => String::new(),
    }
}

/// `src` with every string literal / escaped identifier that stands outside `define lines and is not
/// the argument of `include, `line, `begin_keywords, `pragma turned into the bracketed word [lit__k];
/// also the number of replacements
fn literals_outside_defines_replaced(src: &str) -> Option<(String, usize)> {
    let lx = lexref::lex_opts(src, true).ok()?;
    let mut repaired = String::new();
    let mut arg_of_directive = false;
    let mut in_define = false;
    let mut k = 0;
    for l in &lx {
        let w = &src[l.b..l.e];
        match l.k {
            lexref::K::Bt => {
                arg_of_directive = matches!(w, "`include" | "`line" | "`begin_keywords" | "`pragma");
                if w == "`define" {
                    in_define = true;
                }
                repaired.push_str(w);
            }
            lexref::K::Str | lexref::K::EscId if !arg_of_directive && !in_define => {
                k += 1;
                repaired.push_str(&format!("[lit__{}]", k));
            }
            lexref::K::Ws if w.contains('\n') => {
                arg_of_directive = false;
                // (a continuation is a Ws lexeme that starts with a backslash)
                if !w.starts_with('\\') {
                    in_define = false;
                }
                repaired.push_str(w);
            }
            lexref::K::LineCmt => {
                repaired.push_str(w);
            }
            _ => repaired.push_str(w),
        }
    }
    Some((repaired, k))
}

/// a literal followed by a directive outside `define lines
fn literal_then_directive_outside_defines(src: &str) -> bool {
    let Ok(lx) = lexref::lex_opts(src, true) else { return false };
    let mut in_define = false;
    let mut prev_lit = false;
    for l in &lx {
        let w = &src[l.b..l.e];
        match l.k {
            lexref::K::Ws => {
                if w.contains('\n') && !w.starts_with('\\') {
                    in_define = false;
                }
            }
            lexref::K::LineCmt | lexref::K::BlockCmt => {}
            lexref::K::Bt => {
                if prev_lit && !in_define {
                    return true;
                }
                if w == "`define" {
                    in_define = true;
                }
                prev_lit = false;
            }
            lexref::K::Str | lexref::K::EscId => prev_lit = !in_define,
            _ => prev_lit = false,
        }
    }
    false
}

pub const SIG_CMT_IN_ACTUAL: &str = "line-comment-inside-actual-argument-swallows-rest-of-line";

/// F13: a // comment inside an actual argument is copied into the expansion without the line end that
/// terminated it, so (without strip_comments) whatever follows the usage on its line becomes part of
/// that comment. Recognised by repairing the input: with every such comment turned into a block
/// comment the two runs must agree.
fn f13_repaired_agrees(src: &str, defs: &Defs) -> bool {
    let Some(repaired) = f13_repair(src) else { return false };
    let run = |strip: bool| match api::pp_str(&repaired, Path::new("top.sv"), defs, &[] as &[PathBuf], false, strip) {
        Ok(Ok((pt, _))) => Some(sig_lexemes(pt.text())),
        _ => None,
    };
    match (run(false), run(true)) {
        (Some(a), Some(b)) => a == b || (a.concat() == b.concat() && f5_repaired_input_agrees(&repaired, defs, &a)),
        _ => false,
    }
}

fn f13_repair(src: &str) -> Option<String> {
    let Ok(lx) = lexref::lex_opts(src, true) else { return None };
    let mut repaired = String::new();
    let mut depth = 0i32;
    let mut armed = false; // a macro usage has just been seen
    let mut found = false;
    for l in &lx {
        let w = &src[l.b..l.e];
        match l.k {
            lexref::K::Bt => {
                armed = depth == 0;
                repaired.push_str(w);
            }
            lexref::K::Punct if w == "(" && (armed || depth > 0) => {
                depth += 1;
                armed = false;
                repaired.push_str(w);
            }
            lexref::K::Punct if w == ")" && depth > 0 => {
                depth -= 1;
                repaired.push_str(w);
            }
            lexref::K::LineCmt if depth > 0 => {
                found = true;
                repaired.push_str("/*");
                repaired.push_str(&w[2..].replace("*/", "* /"));
                repaired.push_str("*/");
            }
            lexref::K::Ws | lexref::K::BlockCmt | lexref::K::LineCmt => repaired.push_str(w),
            _ => {
                if depth == 0 {
                    armed = false;
                }
                repaired.push_str(w);
            }
        }
    }
    if !found {
        return None;
    }
    Some(repaired)
}

pub const SIG_STRIP_GLUE: &str = "strip-comments-removes-the-only-separator";
pub const SIG_STRIP_LITERAL: &str = "strip-comments-keeps-comment-attached-to-string-or-escaped-identifier";

/// C18: the run with strip_comments must agree with the run without
pub fn strip_oracle(acc: &mut Acc, p: &Prog, src: &str, defs: &Defs, plain: Result<(&sv_parser::PreprocessedText, &Defs), String>, case: &dyn Fn() -> serde_json::Value) {
    acc.transitions += 1;
    acc.traces += 1;
    let _ = p;
    let r = match api::pp_str(src, Path::new("top.sv"), defs, &[] as &[PathBuf], false, true) {
        Ok(r) => r,
        Err(pn) => {
            acc.violation(None, case(), format!("preprocess_str(strip_comments=true) panicked: {}", pn));
            return;
        }
    };
    match (plain, r) {
        (Ok((plain_pt, d)), Ok((pt, d2))) => {
            let t = plain_pt.text();
            let a = sig_lexemes(t);
            let b = sig_lexemes(pt.text());
            if a != b {
                acc.class("violation");
                // attribution: the only difference is that tokens separated by nothing but a comment
                // (or by directive-adjacent white space) in the plain output are fused in the stripped one
                let in_src = literal_then_directive_outside_defines(src);
                let sig = if (in_src && p1d_repaired_agrees(src, defs)) || (!in_src && crate::props::c06::literal_then_directive(t)) {
                    // (also when the literal meets the usage only inside an expansion: visible in the plain output)
                    Some(SIG_STRIP_P1D.to_string())
                } else if a.concat() == b.concat() && f5_repaired_input_agrees(src, defs, &a) {
                    Some(SIG_STRIP_GLUE.to_string())
                } else if f13_repaired_agrees(src, defs) {
                    Some(SIG_CMT_IN_ACTUAL.to_string())
                } else {
                    None
                };
                acc.violation(sig, case(), format!("strip_comments changes the tokens\nwithout: {:?}\nwith:    {:?}\nsource:\n{}", a, b, src));
                return;
            }
            if defs_table_sig(d) != defs_table_sig(&d2) {
                acc.class("violation");
                acc.violation(None, case(), format!("strip_comments changes the define table\nsource:\n{}", src));
                return;
            }
            // no comment outside kept `define lines
            if let Ok(lx) = lexref::lex(pt.text()) {
                let txt = pt.text();
                for l in lx.iter().filter(|l| matches!(l.k, lexref::K::LineCmt | lexref::K::BlockCmt)) {
                    let line_start = txt[..l.b].rfind('\n').map(|x| x + 1).unwrap_or(0);
                    if txt[line_start..l.b].contains("`define") {
                        continue;
                    }
                    acc.class("violation");
                    // attribution: the comment directly follows a string literal / escaped identifier (P1)
                    let before: Vec<&lexref::Lx> = lx.iter().filter(|x| x.e <= l.b && !lexref::is_trivia(x.k)).collect();
                    let sig = match before.last() {
                        Some(x) if matches!(x.k, lexref::K::Str | lexref::K::EscId) => Some(SIG_STRIP_LITERAL.to_string()),
                        _ if crate::props::c06::literal_then_directive(src) => Some(SIG_STRIP_P1D.to_string()),
                        _ => None,
                    };
                    acc.violation(sig, case(), format!("comment {:?} survives strip_comments\noutput: {:?}\nsource:\n{}", &txt[l.b..l.e], clip(txt, 300), src));
                    return;
                }
            }
            acc.class("strip-agrees");
        }
        (Err(e), Err(e2)) => {
            if e != err_sig(&e2) {
                acc.class("violation");
                acc.violation(None, case(), format!("strip_comments changes the error: {} vs {}\nsource:\n{}", e, err_sig(&e2), src));
            }
        }
        (Ok(_), Err(e2)) => {
            acc.class("violation");
            acc.violation(None, case(), format!("strip_comments turns success into {}\nsource:\n{}", err_sig(&e2), src));
        }
        (Err(e), Ok(_)) => {
            acc.class("violation");
            acc.violation(None, case(), format!("strip_comments turns {} into success\nsource:\n{}", e, src));
        }
    }
}

// ------------------------------------------------------------------ profiles

fn def(name: &str, body: &str) -> Item {
    Item::Define { name: name.into(), formals: None, body: body.into() }
}

pub fn tables() -> Vec<Vec<(String, Option<String>)>> {
    vec![
        vec![],
        vec![("A".into(), None)],
        vec![("A".into(), Some("1".into()))],
        vec![("B".into(), None)],
        vec![("A".into(), None), ("B".into(), Some("2".into()))],
    ]
}

/// items that may stand in a branch
pub fn branch_leaves(with_comments: bool) -> Vec<Item> {
    let mut v = vec![
        Item::Text,
        def("A", "1"),
        Item::Undef("A".into()),
        def("B", ""),
        Item::Usage { name: "U".into(), args: None },
        Item::Include { file: "missing.svh".into(), style: IncStyle::Quote },
    ];
    if with_comments {
        v.push(Item::Cmt("/* c */".into()));
        v.push(Item::Cmt("// c".into()));
    }
    v
}

/// the probes appended to every conditional program make the final table visible in the output
pub fn probes() -> Vec<Item> {
    vec![
        Item::Cond { neg: false, name: "A".into(), then: vec![Item::Lit("A_is_defined".into())], elsifs: vec![], els: None },
        Item::Cond { neg: true, name: "B".into(), then: vec![Item::Lit("B_is_not_defined".into())], elsifs: vec![], els: None },
    ]
}

pub const COND_NAMES: [&str; 3] = ["A", "B", "__LINE__"];

/// one conditional chain; branch bodies are empty or one item of the given lists
pub fn cond_space(then_leaves: Vec<Item>, elsif_leaves: Vec<Item>, else_leaves: Vec<Item>, max_elsif: usize, nested: Option<(Space<Item>, bool)>) -> Space<Item> {
    let mut body_parts = vec![Space::unit(vec![]), Space::of(then_leaves).map(|x| vec![x])];
    if let Some((n, with_text)) = nested {
        body_parts.push(n.clone().map(|x| vec![x]));
        if with_text {
            body_parts.push(n.map(|x| vec![Item::Text, x]));
        }
    }
    let body = Space::sum(body_parts);
    let elsif_body = Space::sum(vec![Space::unit(vec![]), Space::of(elsif_leaves).map(|x| vec![x])]);
    let else_body = Space::sum(vec![Space::unit(vec![]), Space::of(else_leaves).map(|x| vec![x])]);
    let names = Space::of(COND_NAMES.iter().map(|s| s.to_string()).collect::<Vec<_>>());
    let elsif = names.clone().product(elsif_body);
    let elsifs = elsif.seq_range(0, max_elsif);
    let els = Space::sum(vec![Space::unit(None), else_body.map(Some)]);
    Space::of(vec![false, true]).product(names).product(body).product(elsifs).product(els).map(|((((neg, name), then), elsifs), els)| Item::Cond { neg, name, then, elsifs, els })
}

/// C04 profile: [prefix] marker chain marker probes  x tables x layouts
pub fn cond_profile(quick: bool, with_comments: bool) -> Space<Prog> {
    let leaves = branch_leaves(with_comments);
    let small = vec![Item::Text, def("A", "1")];
    let (flat, nested) = if quick {
        let flat = cond_space(leaves.clone(), small.clone(), vec![Item::Text, Item::Undef("A".into())], 2, None);
        let inner = cond_space(vec![Item::Text, def("A", "1")], vec![Item::Text], vec![Item::Text], 1, None);
        let nested = cond_space(vec![], vec![Item::Text], vec![Item::Text], 1, Some((inner, false)));
        (flat, nested)
    } else {
        let flat = cond_space(leaves.clone(), leaves.clone(), leaves.clone(), 2, None);
        let inner = cond_space(vec![Item::Text, def("A", "1"), Item::Undef("A".into())], small.clone(), small.clone(), 1, None);
        let nested = cond_space(vec![Item::Text], small.clone(), small.clone(), 1, Some((inner, true)));
        (flat, nested)
    };
    let chains = Space::sum(vec![flat, nested]);
    let prefix = Space::of(if quick { vec![vec![], vec![Item::UndefAll]] } else { vec![vec![], vec![def("A", "1")], vec![def("B", "")], vec![Item::Undef("A".into())], vec![Item::UndefAll]] });
    let layouts = Space::of(if quick { vec![Layout::OwnLine, Layout::Inline] } else { vec![Layout::OwnLine, Layout::Inline, Layout::IndentCrlf] });
    let mk = |pre: Vec<(String, Option<String>)>, prefix: Vec<Item>, chain: Item, layout: Layout| {
        let mut items = prefix;
        items.push(Item::Text);
        items.push(chain);
        items.push(Item::Text);
        items.extend(probes());
        Prog { items, layout, pre }
    };
    if quick {
        // the layout rotates with the index instead of multiplying the space
        let base = Space::of(tables()).product(prefix).product(chains);
        let n = base.len();
        Space::new(n, move |i| {
            let ((pre, prefix), chain) = base.get(i);
            mk(pre, prefix, chain, if i % 2 == 0 { Layout::OwnLine } else { Layout::Inline })
        })
    } else {
        Space::of(tables()).product(prefix).product(chains).product(layouts).map(move |(((pre, prefix), chain), layout)| mk(pre, prefix, chain, layout))
    }
}

pub fn formals_options() -> Vec<Option<Vec<(String, Option<String>)>>> {
    let f = |n: &str, d: Option<&str>| (n.to_string(), d.map(|x| x.to_string()));
    vec![
        None,
        Some(vec![f("x", None)]),
        Some(vec![f("x", Some("dx"))]),
        Some(vec![f("x", None), f("y", None)]),
        Some(vec![f("x", None), f("y", Some("dy"))]),
        Some(vec![f("x", Some("dx")), f("y", Some("(dy, 2)"))]),
    ]
}

pub const BODY_TOKENS: [&str; 15] = ["é", "/", "x", "y", "k", "1", "+", "``", "`\"", "\"x y\"", "`B", "`B(x)", "\\\n", "x``y", "`\\`\""];

pub fn usage_forms() -> Vec<Option<Vec<String>>> {
    let v = |a: &[&str]| Some(a.iter().map(|s| s.to_string()).collect::<Vec<_>>());
    vec![
        None,
        v(&[""]),
        v(&["p"]),
        v(&["p", "q"]),
        v(&["", "q"]),
        v(&["(p, q)"]),
        v(&["\"p, q\"", "[p, q]"]),
        v(&["{p, q}", "f(p, g(q, r))"]),
        v(&["`B"]),
        v(&["p", ""]),
    ]
}

/// C05 profile: definition of B (3 ways), definition of A, a usage of A between two markers
pub fn macro_profile(quick: bool) -> Space<Prog> {
    let bdefs: Vec<Vec<Item>> = vec![
        vec![],
        vec![def("B", "7")],
        vec![Item::Define { name: "B".into(), formals: Some(vec![("z".into(), None)]), body: "z z".into() }],
    ];
    let toks = Space::of(BODY_TOKENS.iter().map(|s| s.to_string()).collect::<Vec<_>>());
    let bodies = toks.seq_range(0, if quick { 2 } else { 3 }).map(|v| v.join(" "));
    let layouts = Space::of(if quick { vec![Layout::OwnLine, Layout::Inline] } else { vec![Layout::OwnLine, Layout::Inline, Layout::IndentCrlf] });
    Space::of(bdefs).product(Space::of(formals_options())).product(bodies).product(Space::of(usage_forms())).product(layouts).map(|((((bdef, formals), body), usage), layout)| {
        let mut items = bdef;
        items.push(Item::Define { name: "A".into(), formals, body });
        items.push(Item::Text);
        items.push(Item::Usage { name: "A".into(), args: usage });
        items.push(Item::Text);
        Prog { items, layout, pre: vec![] }
    })
}

/// further C05 shapes: redefinition between uses, usage in an actual and in a body, caller-supplied
/// macros, body-less macros, undefined macros, comments in bodies
pub fn macro_extra_profile() -> Space<Prog> {
    let u = |n: &str, a: Option<Vec<&str>>| Item::Usage { name: n.into(), args: a.map(|v| v.iter().map(|s| s.to_string()).collect()) };
    let f1 = |n: &str, formal: &str, body: &str| Item::Define { name: n.into(), formals: Some(vec![(formal.into(), None)]), body: body.into() };
    let shapes: Vec<(Vec<Item>, Vec<(String, Option<String>)>)> = vec![
        (vec![def("A", "1"), u("A", None), def("A", "2"), u("A", None)], vec![]),
        (vec![def("A", "`B"), def("B", "1"), u("A", None), def("B", "2"), u("A", None)], vec![]),
        (vec![def("B", "1"), def("A", "`B"), Item::Undef("B".into()), Item::Text, u("A", None)], vec![]),
        (vec![f1("F", "x", "x + x"), def("A", "1"), u("F", Some(vec!["`A"])), def("A", "2"), u("F", Some(vec!["`A"]))], vec![]),
        (vec![f1("F", "x", "[x]"), f1("G", "y", "`F(y) `F(y)"), u("G", Some(vec!["p"]))], vec![]),
        (vec![f1("F", "x", "\"x\" `\"x`\" x"), u("F", Some(vec!["p"]))], vec![]),
        (vec![f1("F", "x", "x // trailing comment"), Item::Text, u("F", Some(vec!["p"])), Item::Text], vec![]),
        (vec![f1("F", "x", "a /* c */ x"), u("F", Some(vec!["p"]))], vec![]),
        (vec![Item::Text, u("C", None), Item::Text], vec![("C".into(), None)]),
        (vec![Item::Text, u("C", None), Item::Text], vec![("C".into(), Some("c1 c2".into()))]),
        (vec![def("E", ""), Item::Text, u("E", None), Item::Text], vec![]),
        (vec![Item::Text, u("U", None)], vec![]),
        (vec![f1("F", "x", "x"), u("F", None)], vec![]),
        (vec![Item::Define { name: "F".into(), formals: Some(vec![("x".into(), None), ("y".into(), None)]), body: "x y".into() }, u("F", Some(vec!["p"]))], vec![]),
        (vec![def("A", "`A"), u("A", None)], vec![]),
        (vec![def("A", "`B"), def("B", "`A"), u("A", None)], vec![]),
        (vec![f1("F", "x", "`F(x)"), u("F", Some(vec!["p"]))], vec![]),
        (vec![def("A", "1"), Item::Str("\"`A\"".into()), Item::Text, u("A", None)], vec![]),
        (vec![f1("F", "x", "x"), u("F", Some(vec!["a[i, j]"])), u("F", Some(vec!["{a, b}"])), u("F", Some(vec!["f(a, b)"])), u("F", Some(vec!["\"a, b\""])), u("F", Some(vec!["x inside {[lo, hi]}"]))], vec![]),
        (vec![f1("F", "x", "x"), u("F", Some(vec!["(a, (b, c))"])), u("F", Some(vec!["[a][b]"])), u("F", Some(vec!["a ? b : c"]))], vec![]),
        (vec![def("A", "a \\\n b \\\n c"), Item::Text, u("A", None), Item::Text], vec![]),
        (vec![Item::Define { name: "__LINE__".into(), formals: None, body: "99".into() }, Item::Line], vec![]),
        (vec![Item::Text, u("CF", Some(vec!["1"])), Item::Text, u("CF", Some(vec!["1", "3"])), Item::Text], vec![("CF(x,y=2)".into(), Some("x + y".into()))]),
        (vec![Item::Text, u("CF", None)], vec![("CF(x)".into(), Some("x".into()))]),
        (vec![Item::Text, u("CF", Some(vec![""])), Item::Text], vec![("CF(x)".into(), None)]),
        (vec![Item::Cond { neg: false, name: "CF".into(), then: vec![Item::Text], elsifs: vec![], els: Some(vec![Item::Text]) }], vec![("CF(x)".into(), Some("x".into()))]),
        (vec![f1("F", "x", "\"a\\\"x\" x"), Item::Text, u("F", Some(vec!["p"])), Item::Text], vec![]),
        (vec![f1("F", "x", "\"x\\\\\" x \"x\""), Item::Text, u("F", Some(vec!["p"])), Item::Text], vec![]),
        (vec![f1("F", "x", "\"x\\\\\" x // trailing comment"), Item::Text, u("F", Some(vec!["p"])), Item::Text], vec![]),
        (vec![def("A", "\"c:\\\\\" /* c */ 1 // d"), Item::Text, u("A", None), Item::Text], vec![]),
    ];
    let layouts = Space::of(vec![Layout::OwnLine, Layout::Inline, Layout::IndentCrlf]);
    Space::of(shapes).product(layouts).map(|((items, pre), layout)| Prog { items, layout, pre })
}

/// macros whose text holds compiler directives: using one executes them (the expansion is re-scanned
/// as source text), so the define table changes in the middle of a line and inside a branch
pub fn directive_body_profile() -> Space<Prog> {
    let bodies: Vec<&'static str> = vec![
        "`undef A",
        "`undefineall",
        "`define A 1",
        "`define B",
        "p `undef A q `undef B r",
        "`ifdef A `undef A `else `define A 1 \\\n `endif",
        "x `ifndef B y `define B 2 \\\n `endif z",
        "`ifdef A `ifdef B `undef B `endif `elsif B `undef B `else `define B \\\n `endif w",
    ];
    let prefixes: Vec<Vec<Item>> = vec![vec![], vec![def("A", "1")], vec![def("B", "")], vec![def("A", "1"), def("B", "2")]];
    let elsifs: Vec<Option<&'static str>> = vec![None, Some("A"), Some("B")];
    Space::of(bodies)
        .product(Space::of(vec![0usize, 1, 2]))
        .product(Space::of(prefixes))
        .product(Space::of(vec![0usize, 1, 2, 3]))
        .product(Space::of(vec![false, true]))
        .product(Space::of(vec!["A", "B"]))
        .product(Space::of(elsifs))
        .product(Space::of(vec![Layout::OwnLine, Layout::Inline]))
        .map(|(((((((body, how), prefix), place), neg), name), elsif), layout)| {
            // how: 0 the directives are the macro's text (macro from the source), 1 the same with the macro
            // supplied by the caller, 2 they arrive through an actual argument of `define M(x) x
            let via_arg = how == 2 && !body.contains('\\');
            let from_caller = how == 1;
            let m = || Item::Usage { name: "M".into(), args: if via_arg { Some(vec![body.to_string()]) } else { None } };
            let mut items = prefix;
            let mut pre = vec![];
            if via_arg {
                items.push(Item::Define { name: "M".into(), formals: Some(vec![("x".into(), None)]), body: "x".into() });
            } else if from_caller {
                pre.push(("M".to_string(), Some(body.replace("\\\n", "\n"))));
            } else {
                items.push(def("M", body));
            }
            items.push(Item::Text);
            if place == 0 {
                items.push(m());
                items.push(Item::Text);
            }
            let b = |k: usize| if place == k { vec![Item::Text, m(), Item::Text] } else { vec![Item::Text] };
            items.push(Item::Cond { neg, name: name.into(), then: b(1), elsifs: elsif.map(|n| (n.to_string(), b(3))).into_iter().collect(), els: Some(b(2)) });
            items.push(Item::Text);
            items.extend(probes());
            Prog { items, layout, pre }
        })
}

/// redefinitions: every ordered pair of definitions of one name (7 formal lists incl. renamed and
/// reordered formals x 2 texts), from the source or the first one from the caller, a usage after each
pub fn redefine_profile() -> Space<Prog> {
    let f = |n: &str, d: Option<&str>| (n.to_string(), d.map(|x| x.to_string()));
    let mut formals = formals_options();
    formals.push(Some(vec![f("x", Some("ex"))]));
    formals.push(Some(vec![f("y", None), f("x", None)]));
    let bodies = vec!["x - y", "[x]"];
    let defs = Space::of(formals).product(Space::of(bodies));
    let usages: Vec<Option<Vec<String>>> = vec![None, Some(vec!["".into()]), Some(vec!["p".into()]), Some(vec!["p".into(), "q".into()])];
    defs.clone().product(defs).product(Space::of(usages)).product(Space::of(vec![false, true])).product(Space::of(vec![Layout::OwnLine, Layout::Inline])).map(|(((((f1, b1), (f2, b2)), usage), first_from_caller), layout)| {
        let mut items = vec![];
        let mut pre = vec![];
        if first_from_caller {
            let key = match &f1 {
                None => "F".to_string(),
                Some(v) => format!("F({})", v.iter().map(|(n, d)| match d { Some(d) => format!("{}={}", n, d), None => n.clone() }).collect::<Vec<_>>().join(",")),
            };
            pre.push((key, Some(b1.to_string())));
        } else {
            items.push(Item::Define { name: "F".into(), formals: f1, body: b1.into() });
        }
        items.push(Item::Text);
        items.push(Item::Define { name: "F".into(), formals: f2, body: b2.into() });
        items.push(Item::Text);
        items.push(Item::Usage { name: "F".into(), args: usage });
        items.push(Item::Text);
        Prog { items, layout, pre }
    })
}
