//! C09 — recursion is bounded: cycles end in ExceedRecursiveLimit, legal depths work.
//! Every case runs in its own process on a main thread with the default 8 MiB stack: a stack
//! overflow kills only that process and is reported as the violation it is.

use crate::core::run::{Acc, Check, Part, Tier};
use crate::util::api::{self, err_sig, unwrap_include, Defs};
use serde_json::json;
use std::path::{Path, PathBuf};
use sv_parser::Error;

#[derive(Clone, Debug)]
pub enum Case {
    MacroChain(usize),
    MacroCycle(usize),
    IncludeChain(usize),
    IncludeCycle(usize),
    /// a file at include depth i uses a macro chain of length m
    Grid(usize, usize),
    /// a file at include depth d contains `include `P1 where P1 -> ... -> Pm -> "leaf"
    IncludeViaMacroChain(usize, usize),
    /// macros that expand to an `include of a file that uses them again (cycle through k files)
    MacroIncludeCycle(usize),
    /// function-like macro chain F1(x) -> F2(x) ... of length n
    FnMacroChain(usize),
    /// k sibling usages (kind: 0 macro without text, 1 object-like, 2 function-like, 3 caller-supplied
    /// macro without text, 4 the siblings stand inside a macro text) in front of a macro chain of length n
    ChainAfterSiblings(usize, usize, usize),
    /// k sibling includes of a leaf file in front of an include chain of length n
    IncludeChainAfterSiblings(usize, usize),
}

pub const LIMIT: usize = 64;

fn chain_defs(prefix: &str, n: usize, last_body: &str) -> String {
    let mut s = String::new();
    for k in 1..=n {
        if k < n {
            s.push_str(&format!("`define {}{} `{}{}\n", prefix, k, prefix, k + 1));
        } else {
            s.push_str(&format!("`define {}{} {}\n", prefix, k, last_body));
        }
    }
    s
}

/// executed in the child process; prints one line "RESULT ..."
pub fn child(args: &[String]) -> i32 {
    let kind = args[0].as_str();
    let a: usize = args.get(1).and_then(|x| x.parse().ok()).unwrap_or(0);
    let b: usize = args.get(2).and_then(|x| x.parse().ok()).unwrap_or(0);
    let dir = crate::core::run::verif_dir().join(".work").join("C09").join(format!("p{}", std::process::id()));
    let _ = std::fs::create_dir_all(&dir);
    std::env::set_current_dir(&dir).expect("chdir");
    let d = Defs::new();
    let incs: Vec<PathBuf> = vec![];
    let w = |name: &str, text: &str| std::fs::write(name, text).expect("write");
    let top = "top.sv";
    match kind {
        "macro-chain" => w(top, &format!("{}s `A1 e\n", chain_defs("A", a, "leaf"))),
        "fn-macro-chain" => {
            let mut s = String::new();
            for k in 1..=a {
                if k < a {
                    s.push_str(&format!("`define F{}(x) `F{}(x)\n", k, k + 1));
                } else {
                    s.push_str(&format!("`define F{}(x) x\n", k));
                }
            }
            w(top, &format!("{}s `F1(leaf) e\n", s))
        }
        "chain-after-siblings" => {
            let c: usize = args.get(3).and_then(|x| x.parse().ok()).unwrap_or(0);
            let (def, usage) = match a {
                0 | 4 => ("`define E\n", "`E "),
                1 => ("`define E 1\n", "`E "),
                2 => ("`define E(x) x\n", "`E(q) "),
                _ => ("", "`E "),
            };
            let sib = usage.repeat(b);
            if a == 4 {
                w(top, &format!("{}{}`define W {}`A1\ns `W e\n", def, chain_defs("A", c, "leaf"), sib))
            } else {
                w(top, &format!("{}{}s {}`A1 e\n", def, chain_defs("A", c, "leaf"), sib))
            }
        }
        "include-chain-after-siblings" => {
            let mut t = String::from("s\n");
            for _ in 0..a {
                t.push_str("`include \"sib.svh\"\n");
            }
            t.push_str("`include \"f1.svh\"\ne\n");
            w(top, &t);
            w("sib.svh", "x\n");
            for k in 1..=b {
                if k < b {
                    w(&format!("f{}.svh", k), &format!("`include \"f{}.svh\"\n", k + 1));
                } else {
                    w(&format!("f{}.svh", k), "leaf\n");
                }
            }
        }
        "macro-cycle" => {
            let mut s = String::new();
            for k in 1..=a {
                s.push_str(&format!("`define A{} `A{}\n", k, if k < a { k + 1 } else { 1 }));
            }
            w(top, &format!("{}s `A1 e\n", s))
        }
        "include-chain" => {
            w(top, "s\n`include \"f1.svh\"\ne\n");
            for k in 1..=a {
                if k < a {
                    w(&format!("f{}.svh", k), &format!("`include \"f{}.svh\"\n", k + 1));
                } else {
                    w(&format!("f{}.svh", k), "leaf\n");
                }
            }
        }
        "include-cycle" => {
            w(top, "s\n`include \"f1.svh\"\ne\n");
            for k in 1..=a {
                w(&format!("f{}.svh", k), &format!("x{}\n`include \"f{}.svh\"\n", k, if k < a { k + 1 } else { 1 }));
            }
        }
        "grid" | "include-via-macro" => {
            // f1 .. f(a): chain of includes; the deepest holds the macro business
            w(top, "s\n`include \"f1.svh\"\ne\n");
            for k in 1..=a {
                if k < a {
                    w(&format!("f{}.svh", k), &format!("`include \"f{}.svh\"\n", k + 1));
                } else if kind == "grid" {
                    w(&format!("f{}.svh", k), &format!("{}`A1\n", chain_defs("A", b, "leaf")));
                } else {
                    w(&format!("f{}.svh", k), &format!("{}`include `P1\n", chain_defs("P", b, "\"leaf.svh\"")));
                }
            }
            w("leaf.svh", "leaf\n");
        }
        "macro-include-cycle" => {
            // g1 .. g(a): each defines M_k as an include of the next file and uses it
            w(top, "s\n`include \"g1.svh\"\ne\n");
            for k in 1..=a {
                let next = if k < a { k + 1 } else { 1 };
                w(&format!("g{}.svh", k), &format!("`define M{} `include \"g{}.svh\"\nx{}\n`M{}\n", k, next, k, k));
            }
        }
        _ => return 2,
    }
    let mut d = d;
    if kind == "chain-after-siblings" && a == 3 {
        d.insert("E".to_string(), None);
    }
    api::quiet_panics();
    // (the flags travel down every include level: the bound must hold under strip_comments too)
    let strip = std::env::var("C09_STRIP").is_ok();
    let r = api::pp_file(Path::new(top), &d, &incs, strip, false);
    let line = match r {
        Err(p) => format!("PANIC {}", p),
        Ok(Ok((pt, _))) => {
            let toks: Vec<&str> = pt.text().lines().filter(|l| !l.trim_start().starts_with("`define")).flat_map(|l| l.split_whitespace()).collect();
            format!("OK {}", toks.join(","))
        }
        Ok(Err(e)) => {
            let (n, inner) = unwrap_include(&e);
            match inner {
                Error::ExceedRecursiveLimit => format!("LIMIT wraps={}", n),
                other => format!("ERR wraps={} {}", n, err_sig(other)),
            }
        }
    };
    println!("RESULT {}", line);
    let _ = std::env::set_current_dir("/");
    let _ = std::fs::remove_dir_all(&dir);
    0
}

fn expect(c: &Case) -> (Vec<String>, String) {
    // (args, expected RESULT prefix); "LIMIT wraps>=1" style expectations are encoded with '*'
    match c {
        Case::MacroChain(n) => (vec!["macro-chain".into(), n.to_string()], if *n <= LIMIT { "OK s,leaf,e".into() } else { "LIMIT wraps=0".into() }),
        Case::FnMacroChain(n) => (vec!["fn-macro-chain".into(), n.to_string()], if *n <= LIMIT { "OK s,leaf,e".into() } else { "LIMIT wraps=0".into() }),
        Case::MacroCycle(k) => (vec!["macro-cycle".into(), k.to_string()], "LIMIT wraps=0".into()),
        Case::IncludeChain(n) => (vec!["include-chain".into(), n.to_string()], if *n <= LIMIT { "OK s,leaf,e".into() } else { format!("LIMIT wraps={}", LIMIT + 1) }),
        Case::IncludeCycle(k) => (vec!["include-cycle".into(), k.to_string()], format!("LIMIT wraps={}", LIMIT + 1)),
        Case::Grid(i, m) => (
            vec!["grid".into(), i.to_string(), m.to_string()],
            if *i > LIMIT {
                format!("LIMIT wraps={}", LIMIT + 1)
            } else if *m > LIMIT {
                format!("LIMIT wraps={}", i)
            } else {
                "OK s,leaf,e".into()
            },
        ),
        Case::IncludeViaMacroChain(d, m) => (
            vec!["include-via-macro".into(), d.to_string(), m.to_string()],
            if *d + 1 > LIMIT {
                // the leaf would sit at depth d + 1
                if *d > LIMIT || *m > LIMIT { "LIMIT wraps=*".into() } else { format!("LIMIT wraps={}", LIMIT + 1) }
            } else if *m > LIMIT {
                format!("LIMIT wraps={}", d)
            } else {
                "OK s,leaf,e".into()
            },
        ),
        Case::MacroIncludeCycle(k) => (vec!["macro-include-cycle".into(), k.to_string()], "LIMIT wraps=*".into()),
        Case::ChainAfterSiblings(kind, k, n) => {
            let sib = match kind {
                1 => "1,".repeat(*k),
                2 => "q,".repeat(*k),
                _ => String::new(),
            };
            // inside a macro text the chain starts one level deeper
            let depth = if *kind == 4 { *n + 1 } else { *n };
            (vec!["chain-after-siblings".into(), kind.to_string(), k.to_string(), n.to_string()], if depth <= LIMIT { format!("OK s,{}leaf,e", sib) } else { "LIMIT wraps=0".into() })
        }
        Case::IncludeChainAfterSiblings(k, n) => (vec!["include-chain-after-siblings".into(), k.to_string(), n.to_string()], if *n <= LIMIT { format!("OK s,{}leaf,e", "x,".repeat(*k)) } else { format!("LIMIT wraps={}", LIMIT + 1) }),
    }
}

fn run_case(acc: &mut Acc, c: &Case, strip: bool) {
    let (args, want) = expect(c);
    let exe = std::env::current_exe().expect("exe");
    acc.transitions += 1;
    acc.traces += 1;
    acc.nontrivial += 1;
    let mut cmd = std::process::Command::new(exe);
    if strip {
        cmd.env("C09_STRIP", "1");
    } else {
        cmd.env_remove("C09_STRIP");
    }
    cmd.arg("c09child").args(&args).env_remove("RUST_MIN_STACK").stdout(std::process::Stdio::piped()).stderr(std::process::Stdio::piped());
    let case = json!({"case": format!("{:?}", c), "child_args": args, "strip_comments": strip});
    let mut ch = match cmd.spawn() {
        Ok(c) => c,
        Err(e) => panic!("cannot spawn child: {}", e),
    };
    // 20 s cap per case
    let start = std::time::Instant::now();
    let status = loop {
        match ch.try_wait() {
            Ok(Some(s)) => break Some(s),
            Ok(None) => {
                if start.elapsed().as_secs() > 20 {
                    let _ = ch.kill();
                    let _ = ch.wait();
                    break None;
                }
                std::thread::sleep(std::time::Duration::from_millis(2));
            }
            Err(_) => break None,
        }
    };
    let mut out = String::new();
    if let Some(mut so) = ch.stdout.take() {
        use std::io::Read;
        let _ = so.read_to_string(&mut out);
    }
    let Some(status) = status else {
        acc.class("violation");
        acc.violation(None, case, format!("{:?}: no result within 20 s (hang)", c));
        return;
    };
    let line = out.lines().find(|l| l.starts_with("RESULT ")).map(|l| l[7..].to_string());
    let Some(line) = line else {
        acc.class("violation");
        acc.violation(None, case, format!("{:?}: the process died without a result (status {:?}): stack overflow / abort", c, status));
        return;
    };
    let ok = if let Some(p) = want.strip_suffix('*') { line.starts_with(p) && line != format!("{}0", p) } else { line == want };
    if ok {
        acc.class(if line.starts_with("OK") { "expands-fully" } else { "limit-reported" });
        acc.sample(|| json!({"case": format!("{:?}", c), "result": line}));
    } else {
        acc.class("violation");
        acc.violation(None, case, format!("{:?}: expected {}, got {}", c, want, line));
    }
}

pub fn cases(tier: Tier) -> Vec<Case> {
    let mut v = vec![];
    let deep: Vec<usize> = if tier == Tier::Quick { vec![1, 2, 3, 16, 63, 64, 65, 66, 70] } else { (1..=70).collect() };
    for n in &deep {
        v.push(Case::MacroChain(*n));
        v.push(Case::IncludeChain(*n));
        v.push(Case::FnMacroChain(*n));
    }
    for k in 1..=4 {
        v.push(Case::MacroCycle(k));
    }
    for k in 1..=3 {
        v.push(Case::IncludeCycle(k));
        v.push(Case::MacroIncludeCycle(k));
    }
    // the depth is a property of the nesting, not of how much was expanded before
    let ks: Vec<usize> = if tier == Tier::Quick { vec![1, 64, 70] } else { vec![1, 2, 3, 63, 64, 65, 70, 130] };
    let ns: Vec<usize> = if tier == Tier::Quick { vec![1, 63, 64, 65] } else { vec![1, 2, 62, 63, 64, 65, 66] };
    for kind in 0..5 {
        for k in &ks {
            for n in &ns {
                v.push(Case::ChainAfterSiblings(kind, *k, *n));
            }
        }
    }
    for k in &ks {
        for n in &ns {
            v.push(Case::IncludeChainAfterSiblings(*k, *n));
        }
    }
    let g: Vec<usize> = if tier == Tier::Quick { vec![1, 2, 63, 64, 65] } else { vec![1, 2, 3, 32, 62, 63, 64, 65, 66] };
    for i in &g {
        for m in &g {
            v.push(Case::Grid(*i, *m));
        }
    }
    let ds: Vec<usize> = if tier == Tier::Quick { vec![1, 2, 40, 63] } else { vec![1, 2, 3, 20, 40, 62, 63, 64] };
    let ms: Vec<usize> = if tier == Tier::Quick { vec![1, 2, 30, 63, 64, 65] } else { vec![1, 2, 3, 30, 62, 63, 64, 65, 66] };
    for d in &ds {
        for m in &ms {
            v.push(Case::IncludeViaMacroChain(*d, *m));
        }
    }
    v
}

pub fn build(tier: Tier) -> Check<'static> {
    let mut c = Check::new("C09", tier, "6/C09");
    c.rule = "macro chains (object-like and function-like) and include chains of every depth in {1,2,3,16,63,64,65,66,70} (quick) / 1..70 (thorough); macro cycles of length 1-4, include cycles 1-3, macro-expands-to-include cycles through 1-3 files; chains preceded by 1..70 (thorough ..130) sibling usages / includes at the same level (macro without text, object-like, function-like, caller-supplied, inside a macro text); grids (include depth x macro depth) and (include depth x length of the macro chain naming the included file); each case with strip_comments off and on, in its own process with an 8 MiB main stack and a 20 s cap; non-trivial = every case, distinct by construction".into();
    c.assumptions = vec!["limit 64 for both recursion kinds as the property states; an include chain beyond the limit is wrapped in 65 Include levels".into()];
    let cs = std::sync::Arc::new(cases(tier));
    let n = cs.len() as u64;
    c.parts.push(Part::new("depths-and-cycles", n * 2, "all depth / cycle cases, with strip_comments off and on", move |i, acc| run_case(acc, &cs[(i / 2) as usize], i % 2 == 1)));
    c
}
