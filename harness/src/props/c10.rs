//! C10 — `include splices the named file with defines flowing in and out.

use crate::core::run::{Acc, Check, Part, Tier};
use crate::core::space::Space;
use crate::models::ppref::*;
use crate::props::pp::{defs_table_sig, perr_sig, table_sig, to_defs, to_table};
use crate::util::api::{self, clip, err_sig};
use serde_json::json;
use std::collections::BTreeMap;
use std::path::{Path, PathBuf};

pub const SIG_LITERAL_LINE: &str = "string-or-escaped-identifier-on-the-include-line-not-counted";
pub const SIG_P7: &str = "ignore-include-not-applied-inside-macro-expansion";

#[derive(Clone, Debug)]
pub struct IncCase {
    /// where copies of a.svh live: bit0 = cwd, bit1 = inc1, bit2 = inc2
    pub a_places: u8,
    pub b_places: u8,
    /// include path list as indices (1 = inc1, 2 = inc2)
    pub inc_order: Vec<u8>,
    pub a_kind: usize,
    pub style: usize,
    pub twice: bool,
    pub ignore: bool,
    pub layout: Layout,
    pub absolute: bool,
    /// how the included files end: 0 line end, 1 no final line end, 2 a // comment without line end
    pub tail: usize,
}

fn def(name: &str, body: &str) -> Item {
    Item::Define { name: name.into(), formals: None, body: body.into() }
}
fn ifdef(name: &str, lit: &str) -> Item {
    Item::Cond { neg: false, name: name.into(), then: vec![Item::Lit(lit.into())], elsifs: vec![], els: None }
}

pub const A_KINDS: usize = 8;
pub const SIG_F12: &str = "white-space-behind-include-via-macro-dropped";

fn a_items(kind: usize, bname: &str) -> Vec<Item> {
    match kind {
        0 => vec![Item::Text],
        1 => vec![def("X", "x1"), Item::Text],
        2 => vec![Item::Undef("P".into()), Item::Text],
        3 => vec![Item::Cond { neg: true, name: "G".into(), then: vec![def("G", ""), Item::Text], elsifs: vec![], els: None }],
        4 => vec![Item::Text, Item::Include { file: bname.into(), style: IncStyle::Quote }, Item::Text],
        5 => vec![Item::Usage { name: "P".into(), args: None }, Item::Text],
        // a predefined coverage constant redefined by the including file keeps its new text inside
        7 => vec![Item::Usage { name: "SV_COV_START".into(), args: None }, Item::Text, def("SV_COV_STOP", "s2")],
        _ => vec![Item::Text, Item::Usage { name: "NOPE".into(), args: None }],
    }
}

struct World {
    /// path as opened -> items
    vfs: Vfs,
    cwd_has: Vec<String>,
    incs: Vec<String>,
    top: String,
}

/// lay the case out under names unique to the calling worker thread
fn world(c: &IncCase, tag: &str, absdir: &Path) -> World {
    let an = format!("{}_a.svh", tag);
    let bn = format!("{}_b.svh", tag);
    let dirs = [String::new(), format!("{}_inc1", tag), format!("{}_inc2", tag)];
    let mut files = BTreeMap::new();
    let mut cwd_has = vec![];
    let aname_in_source = if c.absolute { absdir.join(&an).to_string_lossy().to_string() } else { an.clone() };
    for (bit, d) in dirs.iter().enumerate() {
        for (name, places, pfx, items) in [(&an, c.a_places, "a", a_items(c.a_kind, &bn)), (&bn, c.b_places, "b", vec![Item::Text, def("Y", "y1")])] {
            if places & (1 << bit) != 0 {
                let path = if d.is_empty() { name.clone() } else { format!("{}/{}", d, name) };
                let prefix = format!("{}{}_", pfx, bit);
                let mut r = render(&items, c.layout, &prefix);
                if c.tail > 0 {
                    let n = r.text.trim_end().len();
                    r.text.truncate(n);
                    if c.tail == 2 {
                        r.text.push_str("\n// end of file");
                    }
                }
                files.insert(path.clone(), (items.clone(), r));
                if d.is_empty() {
                    cwd_has.push(name.clone());
                }
            }
        }
    }
    if c.absolute && c.a_places & 1 != 0 {
        // the absolute spelling of the cwd copy
        let (items, r) = files.get(&an).unwrap().clone();
        files.insert(aname_in_source.clone(), (items, r));
    }
    let style = match c.style {
        0 => IncStyle::Quote,
        1 => IncStyle::Angle,
        _ => IncStyle::ViaMacro("INC".into()),
    };
    let mut top = vec![def("P", "p1")];
    if c.a_kind % 2 == 1 {
        // multi-byte characters ahead of the include: byte and character offsets differ from here on
        top.push(Item::Cmt("/* généré à 25°C */".into()));
    }
    if c.style == 2 {
        top.push(def("INC", &format!("\"{}\"", aname_in_source)));
    }
    if c.a_kind == 7 {
        top.push(def("SV_COV_START", "c7"));
    }
    top.push(Item::Text);
    top.push(Item::Include { file: aname_in_source.clone(), style: style.clone() });
    top.push(Item::Text);
    if c.a_kind == 7 && !c.ignore {
        top.push(Item::Usage { name: "SV_COV_START".into(), args: None });
        top.push(Item::Usage { name: "SV_COV_STOP".into(), args: None });
    }
    top.push(ifdef("X", "X_def"));
    top.push(ifdef("P", "P_def"));
    top.push(ifdef("G", "G_def"));
    top.push(ifdef("Y", "Y_def"));
    if c.twice {
        top.push(Item::Include { file: aname_in_source, style });
        top.push(Item::Text);
    }
    let topname = format!("{}_top.sv", tag);
    let r = render(&top, c.layout, "t");
    files.insert(topname.clone(), (top, r));
    let incs = c.inc_order.iter().map(|i| dirs[*i as usize].clone()).collect();
    World { vfs: Vfs { files }, cwd_has, incs, top: topname }
}

fn materialise(w: &World) -> std::io::Result<Vec<PathBuf>> {
    let mut made = vec![];
    for (p, (_, r)) in &w.vfs.files {
        let path = PathBuf::from(p);
        if path.is_absolute() {
            continue; // alias of the cwd copy
        }
        if let Some(d) = path.parent() {
            if !d.as_os_str().is_empty() {
                std::fs::create_dir_all(d)?;
            }
        }
        std::fs::write(&path, &r.text)?;
        made.push(path);
    }
    Ok(made)
}

pub fn one(acc: &mut Acc, c: &IncCase) {
    let tag = std::thread::current().name().unwrap_or("m").to_string();
    let cwd = std::env::current_dir().unwrap();
    let w = world(c, &tag, &cwd);
    let made = match materialise(&w) {
        Ok(m) => m,
        Err(_) => {
            acc.class("io-skip");
            return;
        }
    };
    // the search rule of the property: as given if absolute or present relative to the working
    // directory, otherwise the first include path that contains it
    let cwd_has = w.cwd_has.clone();
    let incs = w.incs.clone();
    let files: Vec<String> = w.vfs.files.keys().cloned().collect();
    let resolve = move |name: &str| -> Option<String> {
        if Path::new(name).is_absolute() {
            return if files.iter().any(|f| f == name) { Some(name.to_string()) } else { None };
        }
        if cwd_has.iter().any(|f| f == name) {
            return Some(name.to_string());
        }
        for d in &incs {
            let p = format!("{}/{}", d, name);
            if files.iter().any(|f| *f == p) {
                return Some(p);
            }
        }
        None
    };
    let mut it = Interp::new(&w.vfs, &resolve, to_table(&[]));
    it.ignore_include = c.ignore;
    let res = it.run_file(&w.top, 0);
    let pieces = std::mem::take(&mut it.out);
    let table = std::mem::take(&mut it.table);
    drop(it);
    let top_src = w.vfs.files[&w.top].1.text.clone();
    let inc_paths: Vec<PathBuf> = w.incs.iter().map(PathBuf::from).collect();
    let case = || json!({"case": format!("{:?}", c), "top": top_src, "files": w.vfs.files.iter().map(|(k, v)| (k.clone(), v.1.text.clone())).collect::<BTreeMap<_, _>>(), "include_paths": w.incs});
    acc.transitions += 2;
    acc.traces += 1;
    // both entry points: file and string
    let r1 = api::pp_file(Path::new(&w.top), &to_defs(&[]), &inc_paths, false, c.ignore);
    let r2 = api::pp_str(&top_src, Path::new(&w.top), &to_defs(&[]), &inc_paths, c.ignore, false);
    // the flags travel down the include chain: with strip_comments the same files must be spliced
    let r3 = api::pp_file(Path::new(&w.top), &to_defs(&[]), &inc_paths, true, c.ignore);
    acc.transitions += 1;
    for p in &made {
        let _ = std::fs::remove_file(p);
    }
    // F12: the white space behind `include `MACRO is dropped, which shows only when the included file
    // does not end with a line end. Recognised by repairing the input: the same case with a final
    // line end in every included file must pass every oracle.
    let mut repaired_passes: Option<bool> = None;
    let mut sig_f12 = |acc: &mut Acc, which: &str| -> Option<String> {
        if c.tail == 0 {
            return None;
        }
        let strip_route = which.ends_with(")");
        if !strip_route && c.style != 2 {
            return None;
        }
        if repaired_passes.is_none() {
            let mut sc = acc.scratch();
            one(&mut sc, &IncCase { tail: 0, ..c.clone() });
            acc.transitions += sc.transitions;
            repaired_passes = Some(sc.violation_count == 0);
        }
        if repaired_passes != Some(true) {
            return None;
        }
        // F5 under strip_comments (the line end behind the directive goes with the stripped trivia), F12 otherwise
        Some(if strip_route { crate::props::pp::SIG_STRIP_GLUE.to_string() } else { SIG_F12.to_string() })
    };
    for (which, r) in [("preprocess", r1), ("preprocess_str", r2), ("preprocess(strip_comments)", r3)] {
        let r = match r {
            Ok(r) => r,
            Err(pn) => {
                acc.class("violation");
                acc.violation(None, case(), format!("{} panicked: {}", which, pn));
                return;
            }
        };
        match (&res, r) {
            (Ok(()), Ok((pt, d))) => {
                acc.class("ok");
                let want: Vec<String> = expected_lexemes(&pieces).into_iter().map(|x| x.0).collect();
                let got = crate::models::lexref::significant(pt.text()).unwrap_or_default();
                if want != got {
                    acc.class("violation");
                    let sg = sig_f12(acc, which);
                    acc.violation(sg, case(), format!("{}: output tokens differ\nexpected: {:?}\ngot:      {:?}\ntop:\n{}", which, want, got, top_src));
                    return;
                }
                if table_sig(&table) != defs_table_sig(&d) {
                    acc.class("violation");
                    let sg = sig_f12(acc, which);
                    acc.violation(sg, case(), format!("{}: define table differs\nexpected: {:?}\ngot:      {:?}\ntop:\n{}", which, table_sig(&table), defs_table_sig(&d), top_src));
                    return;
                }
                if which.ends_with(")") {
                    continue; // (origins under strip_comments are C18's / C03's business)
                }
                // origins of copied tokens name the file they were copied from
                let wl = expected_lexemes(&pieces);
                let vfs = &w.vfs;
                if let Err((_, m)) = crate::props::c03::check_origins_with(&pt, &wl, &|f| vfs.files.get(f).map(|x| x.1.text.clone()), &|f, o| vfs.files.get(f).map(|x| x.1.pos.iter().filter_map(|p| p.body).any(|(b, e)| b <= o && o < e)).unwrap_or(false)) {
                    acc.class("violation");
                    let sg = sig_f12(acc, which);
                    acc.violation(sg, case(), format!("{}: {}\ntop:\n{}\noutput: {:?}", which, m, top_src, clip(pt.text(), 300)));
                    return;
                }
            }
            (Err(e), Err(ge)) => {
                acc.class("error-as-predicted");
                if perr_sig(e) != err_sig(&ge) {
                    acc.class("violation");
                    let sg = sig_f12(acc, which);
                    acc.violation(sg, case(), format!("{}: error differs: expected {}, got {}\ntop:\n{}", which, perr_sig(e), err_sig(&ge), top_src));
                    return;
                }
            }
            (Ok(()), Err(ge)) => {
                acc.class("violation");
                let sg = sig_f12(acc, which);
                    acc.violation(sg, case(), format!("{}: unexpected error {}\ntop:\n{}", which, err_sig(&ge), top_src));
                return;
            }
            (Err(e), Ok((pt, _))) => {
                acc.class("violation");
                let sg = sig_f12(acc, which);
                    acc.violation(sg, case(), format!("{}: expected {}, got output {:?}\ntop:\n{}", which, perr_sig(e), clip(pt.text(), 200), top_src));
                return;
            }
        }
    }
    acc.nontrivial += 1;
    acc.sample(|| json!({"case": format!("{:?}", c), "top": clip(&top_src, 200)}));
}

/// a string literal / escaped identifier directly followed (trivia aside) by the `include directive itself
/// (finding F1: the directive is then part of the literal's trailing trivia)
fn literal_then_include(s: &str) -> bool {
    use crate::models::lexref::{self, K};
    let Ok(lx) = lexref::lex_opts(s, true) else { return false };
    let sig: Vec<&lexref::Lx> = lx.iter().filter(|l| !lexref::is_trivia(l.k)).collect();
    sig.windows(2).any(|w| matches!(w[0].k, K::Str | K::EscId) && w[1].k == K::Bt && &s[w[1].b..w[1].e] == "`include")
}

/// same-line rule and ignore_include on literal texts (file a.svh = one marker token)
fn line_rule(acc: &mut Acc, k: usize, ignore: bool) {
    let tag = std::thread::current().name().unwrap_or("m").to_string();
    let an = format!("{}_l.svh", tag);
    let inc = format!("`include \"{}\"", an);
    // (text, expectation: Some(true) = IncludeLine, Some(false) = fine)
    let forms: Vec<(String, bool)> = vec![
        (format!("{}\n", inc), false),
        (format!("  {}  \n", inc), false),
        (format!("{} // c\n", inc), false),
        (format!("/* c */ {} /* d */\n", inc), false),
        (format!("x\n{}\ny\n", inc), false),
        (format!("x {}\n", inc), true),
        (format!("{} y\n", inc), true),
        (format!("{} {}\n", inc, inc), true),
        (format!("`define Q 1\n{}\n`undef Q\n", inc), false),
        (format!("`ifdef NOPE x `endif {}\n", inc), true),
        (format!("\"s\" {}\n", inc), true),
        (format!("{} `celldefine\n", inc), true),
        (format!("`define A 1\n{} `undef A\n", inc), true),
        (format!("{} `define B 1\n", inc), true),
        (format!("{} `ifdef A\n`endif\n", inc), true),
        (format!("{} `resetall\n", inc), true),
        (format!("`define Q q\n{} `Q\n", inc), true),
        (format!("{} `timescale 1ns/1ps\n", inc), true),
        (format!("{} `__LINE__\n", inc), true),
        (format!("`define A 1\n`undef A {}\n", inc), true),
        (format!("`resetall {}\n", inc), true),
        (format!("`define Q q\n`Q {}\n", inc), true),
        (format!("`ifdef NOPE\n`endif {}\n", inc), true),
        (format!("{}\n`undef A\n`resetall\n", inc), false),
        (format!("x\ny {}\n", inc), true),
        (format!("`define A a \\\n b\n{}\n", inc), false),
        (format!("`ifdef NOPE\nx\n`else\ny\n`endif\n{}\n", inc), false),
    ];
    let (src, want_line_err) = forms[k % forms.len()].clone();
    std::fs::write(&an, "inc_marker\n").ok();
    acc.transitions += 1;
    acc.traces += 1;
    acc.nontrivial += 1;
    let r = api::pp_str(&src, Path::new("top.sv"), &to_defs(&[]), &[] as &[PathBuf], ignore, false);
    let _ = std::fs::remove_file(&an);
    let case = json!({"source": src, "ignore_include": ignore});
    match r {
        Err(p) => acc.violation(None, case, format!("panic {}", p)),
        Ok(Err(sv_parser::Error::IncludeLine)) if want_line_err && !ignore => acc.class("include-line-rejected"),
        Ok(Ok((pt, _))) if !want_line_err || ignore => {
            let has = pt.text().contains("inc_marker");
            if ignore && has {
                acc.class("violation");
                acc.violation(None, case, format!("ignore_include: the file's tokens appear in the output {:?}", pt.text()));
            } else if ignore && pt.text().contains(&an) {
                acc.class("violation");
                let sig = if literal_then_include(&src) { Some(SIG_LITERAL_LINE.to_string()) } else { None };
                acc.violation(sig, case, format!("ignore_include: the literal `include still contributes tokens: {:?}", pt.text()));
            } else if !ignore && !has {
                acc.class("violation");
                acc.violation(None, case, format!("the included file's tokens are missing: {:?}", pt.text()));
            } else {
                acc.class("include-line-ok");
            }
        }
        Ok(other) => {
            acc.class("violation");
            let sig = if literal_then_include(&src) { Some(SIG_LITERAL_LINE.to_string()) } else { None };
            acc.violation(sig, case, format!("same-line rule: expected {}, got {}\nsource: {:?}", if want_line_err && !ignore { "IncludeLine" } else { "Ok" }, match other { Ok(_) => "Ok".to_string(), Err(e) => err_sig(&e) }, src));
        }
    }
}

/// the file name of a macro-named include is what is between the quotes of the expansion, whatever
/// white space or comment the `define line carries around it
fn macro_named_forms(acc: &mut Acc, k: usize, ignore: bool) {
    let tag = std::thread::current().name().unwrap_or("m").to_string();
    let an = format!("{}_n.svh", tag);
    let q = format!("\"{}\"", an);
    let defs: Vec<String> = vec![
        format!("`define H {}\n", q),
        format!("`define H {} // the common header\n", q),
        format!("`define H {}   \n", q),
        format!("`define H    {}\t\n", q),
        format!("`define H {} \\\n\n", q),
        format!("`define H(x) x\n`define G `H({})\n`define H2 `G\n", q),
        format!("`define Q {}\n`define H `Q // via another macro\n", q),
    ];
    let uses = ["`include `H\n", "`include `H // c\n", "  `include `H  \n", "`include `H2\n"];
    let di = k % defs.len();
    let ui = (k / defs.len()) % uses.len();
    if (ui == 3) != (di == 5) {
        return; // H2 exists only in the nested form
    }
    let src = format!("{}a\n{}b\n", defs[di], uses[ui]);
    std::fs::write(&an, "inc_marker\n").ok();
    acc.transitions += 1;
    acc.traces += 1;
    acc.nontrivial += 1;
    let r = api::pp_str(&src, Path::new("top.sv"), &to_defs(&[]), &[] as &[PathBuf], ignore, false);
    let _ = std::fs::remove_file(&an);
    let case = json!({"source": src, "ignore_include": ignore});
    match r {
        Err(p) => acc.violation(None, case, format!("panic {}", p)),
        Ok(Ok((pt, _))) => {
            let toks: Vec<String> = crate::models::lexref::significant(pt.text()).unwrap_or_default().into_iter().filter(|t| t == "a" || t == "b" || t == "inc_marker").collect();
            let want: Vec<&str> = if ignore { vec!["a", "b"] } else { vec!["a", "inc_marker", "b"] };
            if toks != want {
                acc.class("violation");
                acc.violation(None, case, format!("macro-named include: expected the tokens {:?} in this order, got {:?}\noutput: {:?}\nsource: {:?}", want, toks, pt.text(), src));
            } else {
                acc.class("macro-named-include-ok");
            }
        }
        Ok(Err(e)) => {
            acc.class("violation");
            acc.violation(None, case, format!("macro-named include fails with {}\nsource: {:?}", err_sig(&e), src));
        }
    }
}

/// ignore_include must also hold inside macro expansions: no file may be read
fn ignore_in_expansion(acc: &mut Acc, present: bool) {
    let tag = std::thread::current().name().unwrap_or("m").to_string();
    let an = format!("{}_m.svh", tag);
    let src = format!("`define M `include \"{}\"\nx\n`M\ny\n", an);
    if present {
        std::fs::write(&an, "inc_marker\n").ok();
    }
    acc.transitions += 1;
    acc.traces += 1;
    acc.nontrivial += 1;
    let r = api::pp_str(&src, Path::new("top.sv"), &to_defs(&[]), &[] as &[PathBuf], true, false);
    let _ = std::fs::remove_file(&an);
    let case = json!({"source": src, "ignore_include": true, "file_present": present});
    match r {
        Err(p) => acc.violation(None, case, format!("panic {}", p)),
        Ok(Ok((pt, _))) if !pt.text().contains("inc_marker") => acc.class("no-file-read"),
        Ok(Ok((pt, _))) => {
            acc.class("violation");
            acc.violation(Some(SIG_P7.to_string()), case, format!("ignore_include = true, yet the file named by an `include inside a macro expansion was read: output {:?}", pt.text()));
        }
        Ok(Err(e)) => {
            acc.class("violation");
            let sig = if !present && err_sig(&e).contains("File(") { Some(SIG_P7.to_string()) } else { None };
            acc.violation(sig, case, format!("ignore_include = true, yet {} (the file was looked for)", err_sig(&e)));
        }
    }
}

/// the include rule looks at the process' working directory: move into a scratch one
pub fn enter_cwd(prop: &str) {
    let cwd = crate::core::run::verif_dir().join(".work").join(prop).join("cwd");
    let _ = std::fs::create_dir_all(&cwd);
    std::env::set_current_dir(&cwd).expect("chdir");
}

pub fn cases(tier: Tier) -> Space<IncCase> {
    let places = Space::of((0u8..8).collect::<Vec<_>>());
    let orders = Space::of(vec![vec![], vec![1u8], vec![2], vec![1, 2], vec![2, 1]]);
    let kinds = Space::of((0..A_KINDS).collect::<Vec<_>>());
    let styles = Space::of(vec![0usize, 1, 2]);
    let flags = Space::of(vec![(false, false), (true, false), (false, true), (true, true)]);
    let layouts = Space::of(if tier == Tier::Quick { vec![Layout::OwnLine] } else { vec![Layout::OwnLine, Layout::Inline, Layout::IndentCrlf] });
    let bpl = Space::of(if tier == Tier::Quick { vec![1u8, 4] } else { vec![0u8, 1, 2, 4, 6] });
    let abs = Space::of(vec![false, true]);
    let tails = Space::of(vec![0usize, 1, 2]);
    places.product(orders).product(kinds).product(styles).product(flags).product(layouts).product(bpl).product(abs).product(tails).map(|((((((((a_places, inc_order), a_kind), style), (twice, ignore)), layout), b_places), absolute), tail)| IncCase { a_places, b_places, inc_order, a_kind, style, twice, ignore, layout, absolute, tail })
}

pub fn build(tier: Tier) -> Check<'static> {
    let mut c = Check::new("C10", tier, "6/C10");
    c.rule = "real files: a.svh present in every subset of {cwd, inc1, inc2} (copies carry different marker tokens) x 5 include-path lists x 8 contents (text, define, undef of an outer macro, include guard, nested include of b.svh, usage of an outer macro, usage of an undefined macro, use and redefinition of predefined SV_COV_* constants) x 3 directive styles (quote, angle, via macro) x once/twice x ignore_include x relative/absolute name x placements of b.svh x layouts x 3 endings of the included files (line end, none, a // comment without line end); through preprocess (strip_comments off and on) and preprocess_str; plus 27 same-line forms x ignore_include and the in-expansion `include; non-trivial = model and implementation agree on a result, distinct by construction".into();
    c.assumptions = vec![
        "the process changes its working directory to /verif/.work/C10/cwd; file names are unique per worker thread".into(),
        "reference preprocessor models/ppref.rs with the search rule exactly as the property states it".into(),
    ];
    enter_cwd("C10");
    {
        let sp = cases(tier);
        c.parts.push(Part::new("include-graphs", sp.len(), "include placement / search order / contents / styles", move |i, acc| one(acc, &sp.get(i))));
    }
    c.parts.push(Part::new("macro-named-include-forms", 56, "7 ways to define the macro that names the file (plain, trailing comment, trailing blanks / tab, continuation, through a function-like macro, through another macro) x 4 ways to write the directive x ignore_include", move |i, acc| macro_named_forms(acc, (i / 2) as usize, i % 2 == 1)));
    c.parts.push(Part::new("same-line-rule", 54, "27 same-line forms (text, comments, directives of every kind before and behind the `include) x ignore_include", move |i, acc| line_rule(acc, (i / 2) as usize, i % 2 == 1)));
    c.parts.push(Part::new("ignore-include-in-expansion", 2, "`include produced by a macro body under ignore_include, file absent / present", move |i, acc| ignore_in_expansion(acc, i == 1)));
    c
}
