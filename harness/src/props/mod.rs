pub mod c01;

use crate::core::run::{Check, Tier};

pub const ALL: [&str; 1] = ["C01"];

pub fn build(id: &str, tier: Tier) -> Option<Check<'static>> {
    Some(match id {
        "C01" => c01::build(tier),
        _ => return None,
    })
}
