pub mod c01;
pub mod c02;
pub mod c03;
pub mod c04;
pub mod c05;
pub mod c06;
pub mod pp;
pub mod c07;
pub mod c08;
pub mod c09;
pub mod c10;
pub mod c11;
pub mod c12;
pub mod c13;
pub mod c14;
pub mod c15;
pub mod c16;
pub mod c17;
pub mod c18;
pub mod c19;
pub mod c20;

use crate::core::run::{Check, Tier};

pub const ALL: &[&str] = &["C01", "C02", "C03", "C04", "C05", "C06", "C07", "C08", "C09", "C10", "C11", "C12", "C13", "C14", "C15", "C16", "C17", "C18", "C19", "C20"];

pub fn build(id: &str, tier: Tier) -> Option<Check<'static>> {
    Some(match id {
        "C01" => c01::build(tier),
        "C16" => c16::build(tier),
        "C15" => c15::build(tier),
        "C12" => c12::build(tier),
        "C08" => c08::build(tier),
        "C07" => c07::build(tier),
        "C06" => c06::build(tier),
        "C11" => c11::build(tier),
        "C10" => c10::build(tier),
        "C09" => c09::build(tier),
        "C18" => c18::build(tier),
        "C17" => c17::build(tier),
        "C20" => c20::build(tier),
        "C19" => c19::build(tier),
        "C03" => c03::build(tier),
        "C04" => c04::build(tier),
        "C05" => c05::build(tier),
        "C02" => c02::build(tier),
        "C14" => c14::build(tier),
        "C13" => c13::build(tier),
        _ => return None,
    })
}
