//! C11 — the returned define table is exact and threads across files as one unit.
use crate::core::run::{Acc, Check, Part, Tier};
use crate::models::ppref::{render, Item, Layout};
use crate::props::pp::{self, defs_table_sig, Oracles, Prog};
use crate::util::api::{self, clip, err_sig, Defs};
use serde_json::json;
use std::path::{Path, PathBuf};
use std::sync::Arc;

fn uses_line(items: &[Item]) -> bool {
    items.iter().any(|i| match i {
        Item::Line => true,
        Item::Cond { name, then, elsifs, els, .. } => name == "__LINE__" || uses_line(then) || elsifs.iter().any(|(n, b)| n == "__LINE__" || uses_line(b)) || els.as_ref().map(|b| uses_line(b)).unwrap_or(false),
        _ => false,
    })
}

fn pair(acc: &mut Acc, f1: &Prog, f2: &Prog) {
    let t1 = render(&f1.items, Layout::OwnLine, "t").text;
    let t2 = render(&f2.items, Layout::OwnLine, "u").text;
    let joint = format!("{}{}", t1, t2);
    let d0 = pp::to_defs(&f1.pre);
    let path = Path::new("top.sv");
    let incs: Vec<PathBuf> = vec![];
    let case = || json!({"file1": t1, "file2": t2, "predefined": f1.pre});
    acc.transitions += 3;
    acc.traces += 1;
    let r1 = api::pp_str(&t1, path, &d0, &incs, false, false);
    let rj = api::pp_str(&joint, path, &d0, &incs, false, false);
    let (r1, rj) = match (r1, rj) {
        (Ok(a), Ok(b)) => (a, b),
        _ => {
            acc.violation(None, case(), "panic in preprocess_str".into());
            return;
        }
    };
    match r1 {
        Err(e1) => {
            acc.class("first-file-fails");
            match rj {
                Err(ej) if err_sig(&ej) == err_sig(&e1) => {}
                other => acc.violation(None, case(), format!("file 1 alone fails with {} but the concatenation gives {}", err_sig(&e1), match other { Ok(_) => "Ok".to_string(), Err(e) => err_sig(&e) })),
            }
        }
        Ok((p1, d1)) => {
            let d1: Defs = d1;
            let r2 = match api::pp_str(&t2, path, &d1, &incs, false, false) {
                Ok(r) => r,
                Err(p) => {
                    acc.violation(None, case(), format!("panic {}", p));
                    return;
                }
            };
            match (r2, rj) {
                (Ok((p2, d2)), Ok((pj, dj))) => {
                    acc.class("pair-ok");
                    acc.nontrivial += 1;
                    acc.sample(|| json!({"file1": clip(&t1, 120), "file2": clip(&t2, 120)}));
                    let want = format!("{}{}", p1.text(), p2.text());
                    if want != pj.text() {
                        acc.class("violation");
                        acc.violation(None, case(), format!("output of file 2 given file 1's table differs from the tail of the joint output\nseparate: {:?}\njoint:    {:?}", clip(&want, 400), clip(pj.text(), 400)));
                        return;
                    }
                    if defs_table_sig(&d2) != defs_table_sig(&dj) {
                        acc.class("violation");
                        acc.violation(None, case(), format!("final tables differ\nthreaded: {:?}\njoint:    {:?}", defs_table_sig(&d2), defs_table_sig(&dj)));
                    }
                }
                (Err(e2), Err(ej)) => {
                    acc.class("second-file-fails");
                    if err_sig(&e2) != err_sig(&ej) {
                        acc.violation(None, case(), format!("file 2 fails with {} but the concatenation with {}", err_sig(&e2), err_sig(&ej)));
                    }
                }
                (a, b) => {
                    acc.class("violation");
                    acc.violation(None, case(), format!("file 2 after file 1: {} ; concatenation: {}", if a.is_ok() { "Ok".into() } else { err_sig(&a.err().unwrap()) }, if b.is_ok() { "Ok".into() } else { err_sig(&b.err().unwrap()) }));
                }
            }
        }
    }
}

pub fn build(tier: Tier) -> Check<'static> {
    let mut c = Check::new("C11", tier, "6/C11");
    c.rule = "(a) returned table vs the reference preprocessor's table on every program of the C04 and C05 profiles; (b) every ordered pair (f1, f2) of a sub-profile (every k-th conditional program + the macro shapes, own-line layout, f2 without `__LINE__): preprocess(f2, defines = preprocess(f1).defines) against preprocess(f1 ++ f2); non-trivial = successful comparison, distinct by construction".into();
    c.assumptions = vec!["SV_COV_* constants are left aside; bodies and defaults are compared trimmed".into()];
    let or = Oracles { table: true, ..Default::default() };
    {
        let sp = pp::cond_profile(true, false); // the thorough C04 profile (65 M programs) is C04's business
        c.parts.push(Part::new("cond-profile-table", sp.len(), "conditional profile: returned table", move |i, acc| pp::check_prog(acc, &sp.get(i), or, "conditional profile")));
    }
    {
        let sp = pp::macro_profile(tier == Tier::Quick);
        c.parts.push(Part::new("macro-profile-table", sp.len(), "macro profile: returned table (formals, defaults, bodies)", move |i, acc| pp::check_prog(acc, &sp.get(i), or, "macro profile")));
    }
    {
        let sp = pp::macro_extra_profile();
        c.parts.push(Part::new("macro-shapes-table", sp.len(), "macro shapes: returned table", move |i, acc| pp::check_prog(acc, &sp.get(i), or, "macro shapes")));
    }
    {
        let sp = pp::directive_body_profile();
        c.parts.push(Part::new("directive-bodies-table", sp.len(), "macros whose text holds `undef / `undefineall / `define / conditional chains: returned table", move |i, acc| pp::check_prog(acc, &sp.get(i), or, "directive bodies")));
    }
    {
        let sp = pp::redefine_profile();
        let or2 = Oracles { table: true, lexemes: true, ..Default::default() };
        c.parts.push(Part::new("redefinitions-table", sp.len(), "every ordered pair of definitions of one name (8 formal lists x 2 texts; first one from the source or the caller) and a usage: returned table and tokens", move |i, acc| pp::check_prog(acc, &sp.get(i), or2, "redefinitions")));
    }
    {
        // defines flowing out of included files (real files): define / undef / guard / nested include
        crate::props::c10::enter_cwd("C11");
        let all = crate::props::c10::cases(tier);
        let idx: Vec<u64> = (0..all.len()).filter(|i| {
            let c = all.get(*i);
            !c.ignore && ((1..=4).contains(&c.a_kind) || c.a_kind == 7)
        }).collect();
        let idx = Arc::new(idx);
        let n = idx.len() as u64;
        c.parts.push(Part::new("include-graphs-table", n, "the C10 include layouts whose included file defines / undefines / guards / includes: returned table (and tokens) vs the reference preprocessor", move |i, acc| {
            crate::props::c10::one(acc, &all.get(idx[i as usize]));
        }));
    }
    {
        let cp = pp::cond_profile(true, false);
        let want = tier.pick(500usize, 1500usize);
        let stride = (cp.len() as usize / want).max(1) as u64;
        let mut progs: Vec<Prog> = (0..cp.len()).step_by(stride as usize).map(|i| cp.get(i)).collect();
        let me = pp::macro_extra_profile();
        progs.extend((0..me.len()).step_by(3).map(|i| me.get(i)));
        let mp = pp::macro_profile(true);
        progs.extend((0..mp.len()).step_by((mp.len() as usize / 80).max(1)).map(|i| mp.get(i)));
        let firsts = Arc::new(progs.clone());
        let seconds: Arc<Vec<Prog>> = Arc::new(progs.into_iter().filter(|p| !uses_line(&p.items)).collect());
        let (n1, n2) = (firsts.len() as u64, seconds.len() as u64);
        c.parts.push(Part::new("file-pairs", n1 * n2, "every ordered pair of the sub-profile", move |i, acc| {
            pair(acc, &firsts[(i / n2) as usize], &seconds[(i % n2) as usize]);
        }));
    }
    c
}
