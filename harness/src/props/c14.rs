//! C14 — invalid sources are rejected; the error location is at or before the fault.

use crate::core::run::{Acc, Check, Part, Tier};
use crate::corpus;
use crate::util::api::{self, clip, err_sig, thread_dir, Defs};
use crate::util::tree;
use serde_json::json;
use std::path::{Path, PathBuf};
use std::sync::Arc;
use sv_parser::Error;

const BAD: [&str; 5] = ["\u{1}", "\u{7f}", "é", "\u{a0}", "\u{b}"];
const CLOSERS: [&str; 23] = [
    "end", "endmodule", "endfunction", "endtask", "endcase", "endgenerate", "join", "join_any", "join_none", "endclass",
    "endpackage", "endinterface", "endprogram", "endprimitive", "endtable", "endspecify", "endconfig", "endproperty",
    "endsequence", "endgroup", "endclocking", "endchecker", "begin",
];
const BRACKETS: [&str; 6] = ["(", ")", "[", "]", "{", "}"];

struct Tok {
    b: usize,
    e: usize,
    parent: String,
}

struct Base {
    text: String,
    toks: Vec<Tok>,
}

fn base_of(src: &str, lib: bool) -> Option<Base> {
    let (t, _) = api::parse_simple(src, lib, false).ok()?.ok()?;
    let ix = tree::index(&t).ok()?;
    let text = tree::text_from_leaves(&t, &ix)?;
    // the source must be a fixed point of the preprocessor so that offsets in the text are
    // offsets in the file
    match api::pp_str(&text, Path::new("top.sv"), &Defs::new(), &[], false, false) {
        Ok(Ok((pt, _))) if pt.text() == text => {}
        _ => return None,
    }
    let mut toks = vec![];
    for (l, id) in &ix.leaves {
        let n = &ix.nodes[*id];
        if !n.in_ws {
            let parent = n.parent.map(|p| ix.nodes[p].kind.clone()).unwrap_or_default();
            toks.push(Tok { b: l.offset, e: l.offset + l.len, parent });
        }
    }
    Some(Base { text, toks })
}

fn boundaries(b: &Base) -> Vec<usize> {
    let mut v = vec![];
    for t in &b.toks {
        v.push(t.b);
        // the end of an escaped identifier is not a boundary: any non-blank byte extends it
        if !b.text[t.b..].starts_with('\\') {
            v.push(t.e);
        }
    }
    v.sort();
    v.dedup();
    v
}

fn expect_parse_error_at(acc: &mut Acc, r: api::ParseResult, file: &Path, limit: usize, case: serde_json::Value, what: &str) {
    acc.traces += 1;
    match r {
        Ok(Err(Error::Parse(Some((p, pos))))) => {
            if p != file {
                acc.class("violation");
                acc.violation(None, case, format!("{}: Error::Parse names {:?}, the byte is in {:?}", what, p, file));
            } else if pos > limit {
                acc.class("violation");
                acc.violation(None, case, format!("{}: Error::Parse position {} is after the inserted byte at {}", what, pos, limit));
            } else {
                acc.class("rejected-with-location");
            }
        }
        Ok(Err(Error::Parse(None))) => {
            acc.class("violation");
            acc.violation(None, case, format!("{}: Error::Parse carries no location", what));
        }
        Ok(Err(e)) => {
            acc.class("violation");
            acc.violation(None, case, format!("{}: expected Error::Parse, got {}", what, err_sig(&e)));
        }
        Ok(Ok(_)) => {
            acc.class("violation");
            acc.violation(None, case, format!("{}: the source is accepted", what));
        }
        Err(p) => {
            acc.class("violation");
            acc.violation(None, case, format!("{}: panic {}", what, p));
        }
    }
}

/// small preprocessor-level programs without strings / comments (so that an inserted
/// opening quote or comment opener stays unterminated)
const PP_BASES: [&str; 8] = [
    "module a; endmodule\n",
    "`define A 1\nwire w = `A;\n",
    "`ifdef X\n a\n`else\n b\n`endif\nc\n",
    "`define F(x) x + 1\nassign y = `F(2);\n",
    "`timescale 1ns/1ps\nmodule m; endmodule\n`resetall\n",
    "a `__LINE__ b\n`undef Q\n",
    "`begin_keywords \"1364-2001\"\nmodule m; endmodule\n`end_keywords\n",
    "x\ty\r\nz é w\n",
];

/// (fault text, is_local) — local faults are detectable where they stand, the others only at EOF
const PP_FAULTS: [(&str, bool); 9] = [
    ("\"abc", false),
    ("/* abc", false),
    ("\\ ", true),
    ("`;", true),
    ("`ifdef Z9 ", false),
    ("`else ", true),
    ("`endif ", true),
    ("`undef ;", true),
    ("`include ;", true),
];

fn ws_positions(s: &str) -> Vec<usize> {
    // positions right after a blank/newline or at 0 (never inside a directive argument list
    // of the bases above except where that itself is a fault position we accept)
    let mut v = vec![0];
    for (i, c) in s.char_indices() {
        if c == '\n' {
            v.push(i + 1);
        }
    }
    v.push(s.len());
    v.sort();
    v.dedup();
    v
}

pub fn build(tier: Tier) -> Check<'static> {
    let mut c = Check::new("C14", tier, "6/C14");
    c.rule = "accepted seed or default sentence of a reference-grammar rule or design elements inside a `begin_keywords region of each of the 8 versions (preprocessor fixed points only) x every token boundary x 5 bad bytes (control bytes, a letter, two Unicode / ASCII white-space look-alikes that IEEE 5.3 does not list); x every single bracket / block keyword deleted; the same through `include; mutants through all three strict routes to a tree x ignore_include; 8 pp programs x every line start x 9 lexical faults; non-trivial = every mutant (distinct by construction)".into();
    c.assumptions = vec![
        "every sentence of the grammar is balanced in ( ) [ ] { } characters outside strings, comments and escaped identifiers, and in begin/end, fork/join*, case/endcase and the other block keyword pairs; hence deleting one of them cannot yield a sentence".into(),
        "the end of an escaped identifier is not a token boundary (any non-blank byte extends it)".into(),
        "the position of a preprocessor-level fault is the first byte of the faulty token (opening quote, comment opener, backslash, backtick, unmatched conditional directive)".into(),
    ];
    let mut seeds = corpus::load();
    {
        // the default sentence of every reference-grammar rule is an accepted program too (ids from 100000)
        let g = crate::engines::svgen::Gen::new(crate::engines::svgen::grammar_text());
        for (k, (rule, items)) in g.rule_defaults().into_iter().enumerate() {
            let text = crate::engines::svgen::render(&items, " ", 0).text;
            if text.len() < 260 {
                seeds.push(corpus::Seed { id: 100_000 + k, kind: format!("sv grammar:{}", rule), text });
            }
        }
    }
    {
        // the same holds under every keyword set: programs inside a `begin_keywords region (ids from 200000)
        let bodies: [(&str, bool); 5] = [
            ("module m;\nendmodule\nmodule n;\nendmodule\n", false),
            ("module m;\nfunction f;\ninput a;\nbegin\nend\nendfunction\nendmodule\n", false),
            ("module m;\ntask t;\nbegin\nend\nendtask\ninitial begin\nend\nendmodule\n", false),
            ("module m;\nendmodule\npackage p;\nendpackage\nprogram q;\nendprogram\n", true),
            ("interface i;\nendinterface\nclass c;\nendclass\nmodule m;\nendmodule\n", true),
        ];
        let mut k = 0;
        for v in crate::models::kwref::VERSIONS.iter() {
            for (body, sv_only) in bodies.iter() {
                if *sv_only && !v.starts_with("1800") {
                    continue;
                }
                seeds.push(corpus::Seed { id: 200_000 + k, kind: format!("sv region:{}", v), text: format!("`begin_keywords \"{}\"\n{}`end_keywords\nmodule z;\nendmodule\n", v, body) });
                k += 1;
            }
        }
    }
    let seeds = Arc::new(seeds);
    let lim = tier.pick(260, 1 << 30);
    // tables
    let mut bad_tab: Vec<(usize, usize)> = vec![];
    let mut del_tab: Vec<(usize, usize)> = vec![];
    for (si, seed) in seeds.iter().enumerate() {
        if seed.is_lib() || (seed.text.len() >= lim && seed.id < 200_000) {
            continue;
        }
        if let Some(b) = base_of(&seed.text, false) {
            for p in boundaries(&b) {
                bad_tab.push((si, p));
            }
            for (k, t) in b.toks.iter().enumerate() {
                let s = &b.text[t.b..t.e];
                if (t.parent == "Symbol" && BRACKETS.contains(&s)) || (t.parent == "Keyword" && CLOSERS.contains(&s)) {
                    del_tab.push((si, k));
                }
            }
        }
    }
    let (bad_tab, del_tab) = (Arc::new(bad_tab), Arc::new(del_tab));
    {
        let (s, tab) = (seeds.clone(), bad_tab.clone());
        c.parts.push(Part::new("bad-byte", (tab.len() * BAD.len()) as u64, "accepted seed x token boundary x {\\x01, \\x7f, é, no-break space U+00A0, vertical tab}: Error::Parse(Some((top, pos <= offset)))", move |i, acc| {
            let (si, p) = tab[(i as usize) / BAD.len()];
            let bad = BAD[(i as usize) % BAD.len()];
            let Some(b) = base_of(&s[si].text, false) else { return };
            let m = format!("{}{}{}", &b.text[..p], bad, &b.text[p..]);
            acc.nontrivial += 1;
            acc.transitions += 1;
            acc.sample(|| json!({"seed": s[si].id, "offset": p, "byte": bad, "mutant": clip(&m, 160)}));
            let r = api::parse_simple(&m, false, false);
            expect_parse_error_at(acc, r, Path::new("top.sv"), p, json!({"seed": s[si].id, "offset": p, "byte": bad, "source": clip(&m, 2000)}), &format!("byte {:?} inserted at {} of seed {}", bad, p, s[si].id));
        }));
    }
    {
        let (s, tab) = (seeds.clone(), del_tab.clone());
        c.parts.push(Part::new("delete-delimiter", tab.len() as u64, "accepted seed x each single ( ) [ ] { } symbol or block keyword (begin/end/endmodule/join/...) deleted: Error::Parse", move |i, acc| {
            let (si, k) = tab[i as usize];
            let Some(b) = base_of(&s[si].text, false) else { return };
            let t = &b.toks[k];
            let m = format!("{}{}", &b.text[..t.b], &b.text[t.e..]);
            acc.nontrivial += 1;
            acc.transitions += 1;
            acc.traces += 1;
            let case = json!({"seed": s[si].id, "deleted": &b.text[t.b..t.e], "at": t.b, "source": clip(&m, 2000)});
            match api::parse_simple(&m, false, false) {
                Ok(Err(Error::Parse(_))) => acc.class("rejected"),
                Ok(Err(e)) => {
                    acc.class("violation");
                    acc.violation(None, case, format!("deleting {:?} at {} of seed {}: expected Error::Parse, got {}", &b.text[t.b..t.e], t.b, s[si].id, err_sig(&e)));
                }
                Ok(Ok(_)) => {
                    acc.class("violation");
                    acc.violation(None, case, format!("deleting {:?} at {} of seed {} leaves an accepted source\nsource: {:?}", &b.text[t.b..t.e], t.b, s[si].id, clip(&m, 600)));
                }
                Err(p) => {
                    acc.class("violation");
                    acc.violation(None, case, format!("panic {}", p));
                }
            }
        }));
    }
    {
        // every strict route to a tree must reject the mutant: file, string and two-step entry points,
        // whatever ignore_include says (the seeds used here hold no `include)
        let (s, bt, dt) = (seeds.clone(), bad_tab.clone(), del_tab.clone());
        let (sb, sd) = (tier.pick(5usize, 1usize), tier.pick(2usize, 1usize));
        let nb = (bt.len() + sb - 1) / sb;
        let nd = (dt.len() + sd - 1) / sd;
        c.parts.push(Part::new("entry-points", (nb + nd) as u64, "bad-byte (\\x01; quick: every 5th boundary) and deleted-delimiter (quick: every 2nd) mutants through parse_sv(file), parse_sv_str and preprocess_str + parse_sv_pp, each with ignore_include off and on: all six must fail with Error::Parse (bad byte: location in the file, not after the byte)", move |i, acc| {
            let i = i as usize;
            let (si, m, limit, what) = if i < nb {
                let (si, p) = bt[i * sb];
                let Some(b) = base_of(&s[si].text, false) else { return };
                (si, format!("{}\u{1}{}", &b.text[..p], &b.text[p..]), Some(p), format!("byte \\x01 inserted at {}", p))
            } else {
                let (si, k) = dt[(i - nb) * sd];
                let Some(b) = base_of(&s[si].text, false) else { return };
                let t = &b.toks[k];
                (si, format!("{}{}", &b.text[..t.b], &b.text[t.e..]), None, format!("{:?} at {} deleted", &b.text[t.b..t.e], t.b))
            };
            if m.contains("`include") {
                return;
            }
            let dir = thread_dir("C14");
            let file = dir.join("ep_top.sv");
            if std::fs::write(&file, &m).is_err() {
                acc.class("io-skip");
                return;
            }
            acc.nontrivial += 1;
            let d = Defs::new();
            let incs: Vec<PathBuf> = vec![];
            for ignore in [false, true] {
                let routes: Vec<(&str, api::ParseResult)> = vec![
                    ("parse_sv(file)", api::parse_sv_file(&file, &d, &incs, ignore, false)),
                    ("parse_sv_str", api::parse_sv_str(&m, &file, &d, &incs, ignore, false)),
                    ("preprocess_str + parse_sv_pp", match api::pp_str(&m, &file, &d, &incs, ignore, false) {
                        Err(p) => Err(p),
                        Ok(Err(e)) => Ok(Err(e)),
                        Ok(Ok((pt, dd))) => api::guarded(|| sv_parser::parse_sv_pp(pt, dd, false)),
                    }),
                ];
                for (route, r) in routes {
                    acc.transitions += 1;
                    let case = json!({"seed": s[si].id, "mutation": what, "route": route, "ignore_include": ignore, "source": clip(&m, 2000)});
                    let w = format!("{} of seed {} through {} (ignore_include = {})", what, s[si].id, route, ignore);
                    match limit {
                        Some(p) => expect_parse_error_at(acc, r, &file, p, case, &w),
                        None => {
                            acc.traces += 1;
                            match r {
                                Ok(Err(Error::Parse(_))) => acc.class("rejected"),
                                Ok(Err(e)) => {
                                    acc.class("violation");
                                    acc.violation(None, case, format!("{}: expected Error::Parse, got {}", w, err_sig(&e)));
                                }
                                Ok(Ok(_)) => {
                                    acc.class("violation");
                                    acc.violation(None, case, format!("{}: the source is accepted", w));
                                }
                                Err(pn) => {
                                    acc.class("violation");
                                    acc.violation(None, case, format!("{}: panic {}", w, pn));
                                }
                            }
                        }
                    }
                }
            }
            let _ = std::fs::remove_file(&file);
        }));
    }
    {
        // through `include: the byte sits in the included file
        let (s, tab) = (seeds.clone(), bad_tab.clone());
        let stride = tier.pick(3, 1);
        let n = (tab.len() + stride - 1) / stride;
        c.parts.push(Part::new("bad-byte-in-include", n as u64, "as bad-byte (byte \\x01; quick: every 3rd boundary) with the program moved into an included file: the location must name that file", move |i, acc| {
            let (si, p) = tab[(i as usize) * stride];
            let Some(b) = base_of(&s[si].text, false) else { return };
            let m = format!("{}\u{1}{}", &b.text[..p], &b.text[p..]);
            let dir = thread_dir("C14");
            let body = dir.join("body.svh");
            if std::fs::write(&body, &m).is_err() {
                acc.class("io-skip");
                return;
            }
            acc.nontrivial += 1;
            acc.transitions += 1;
            // every other case: multi-byte characters ahead of the include (byte and character offsets differ)
            let top = if i % 2 == 0 { "`include \"body.svh\"\n" } else { "// généré à 25°C\nstring s = \"é\";\n`include \"body.svh\"\n" };
            let incs = vec![dir.clone()];
            let r = api::parse_sv_str(top, Path::new("top.sv"), &Defs::new(), &incs, false, false);
            expect_parse_error_at(acc, r, &body, p, json!({"seed": s[si].id, "offset": p, "included_file": clip(&m, 2000), "top": top}), &format!("byte \\x01 at {} of included seed {}", p, s[si].id));
            let _ = std::fs::remove_file(&body);
        }));
    }
    {
        let mut tab: Vec<(usize, usize, usize)> = vec![];
        for (bi, b) in PP_BASES.iter().enumerate() {
            for p in ws_positions(b) {
                for f in 0..PP_FAULTS.len() {
                    // a stray `else / `endif / `ifdef inside a conditional re-pairs with the
                    // base's own directives: the fault is then somewhere else
                    if b.contains("`ifdef") && PP_FAULTS[f].0.starts_with("`e") {
                        continue;
                    }
                    tab.push((bi, p, f));
                }
            }
        }
        let tab = Arc::new(tab);
        c.parts.push(Part::new("pp-faults", (tab.len() * 2) as u64, "8 small pp programs x every line start x 9 lexical faults, directly and through `include: Error::Preprocess(Some((file, pos))) with pos not after the fault", move |i, acc| {
            let (bi, p, f) = tab[(i / 2) as usize];
            let via_include = i % 2 == 1;
            let base = PP_BASES[bi];
            let (fault, local) = PP_FAULTS[f];
            // the remainder of the base must not terminate the fault: cut it for non-local faults
            let m = if local { format!("{}{}{}", &base[..p], fault, &base[p..]) } else { format!("{}{} rest\n", &base[..p], fault) };
            // "an offset not after the fault": the fault is where the faulty token starts
            let _ = local;
            let limit = p;
            acc.nontrivial += 1;
            acc.transitions += 1;
            acc.traces += 1;
            let case = json!({"source": m, "fault": fault, "offset": p, "via_include": via_include});
            let (r, file): (api::PpResult, PathBuf) = if via_include {
                let dir = thread_dir("C14");
                let body = dir.join("ppbody.svh");
                if std::fs::write(&body, &m).is_err() {
                    return;
                }
                let r = api::pp_str("`include \"ppbody.svh\"\n", Path::new("top.sv"), &Defs::new(), &[dir.clone()], false, false);
                let _ = std::fs::remove_file(&body);
                (r, body)
            } else {
                (api::pp_str(&m, Path::new("top.sv"), &Defs::new(), &[], false, false), PathBuf::from("top.sv"))
            };
            let inner = match &r {
                Ok(Err(e)) => {
                    let (n, inner) = api::unwrap_include(e);
                    if n != via_include as usize {
                        acc.class("violation");
                        acc.violation(None, case, format!("fault {:?} at {}: error is wrapped in {} Include level(s), expected {}: {}", fault, p, n, via_include as usize, err_sig(e)));
                        return;
                    }
                    inner
                }
                Ok(Ok((pt, _))) => {
                    acc.class("violation");
                    acc.violation(None, case, format!("fault {:?} at {} is accepted by the preprocessor, output {:?}", fault, p, clip(pt.text(), 200)));
                    return;
                }
                Err(pn) => {
                    acc.class("violation");
                    acc.violation(None, case, format!("panic {}", pn));
                    return;
                }
            };
            match inner {
                Error::Preprocess(Some((path, pos))) => {
                    if path != &file {
                        acc.class("violation");
                        acc.violation(None, case, format!("fault {:?}: Error::Preprocess names {:?}, the fault is in {:?}", fault, path, file));
                    } else if *pos > limit {
                        acc.class("violation");
                        acc.violation(None, case, format!("fault {:?} at {}: reported position {} is after the fault (limit {})", fault, p, pos, limit));
                    } else {
                        acc.class("pp-rejected-with-location");
                    }
                }
                e => {
                    acc.class("violation");
                    acc.violation(None, case, format!("fault {:?} at {}: expected Error::Preprocess(Some(..)), got {}", fault, p, err_sig(e)));
                }
            }
        }));
    }
    c
}
