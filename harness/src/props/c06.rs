//! C06 — directive-free text passes through the preprocessor unchanged; outputs are fixed points.

use crate::core::run::{Acc, Check, Part, Tier};
use crate::engines::soup;
use crate::models::lexref::{self, K};
use crate::util::api::{self, clip, err_sig, Defs};
use serde_json::json;
use std::path::{Path, PathBuf};

pub const SIG_P1: &str = "string-or-escaped-identifier-trailing-trivia-emitted-twice";
pub const SIG_P1D: &str = "directive-directly-after-string-or-escaped-identifier-emitted-raw-and-processed";

pub const SIG_GLUE: &str = "expansion-glued-to-adjacent-token-without-separator";

/// the source attaches a directive / macro usage directly to a neighbouring token (no white space),
/// so that what it expands to can fuse with that neighbour in the output
pub fn directive_attached(s: &str) -> bool {
    let Ok(lx) = lexref::lex_opts(s, true) else { return false };
    lx.windows(2).any(|w| !lexref::is_trivia(w[0].k) && !lexref::is_trivia(w[1].k) && (w[1].k == K::Bt || w[0].k == K::Bt))
}

/// a string literal / escaped identifier followed (trivia aside) by a compiler directive
pub fn literal_then_directive(s: &str) -> bool {
    let Ok(lx) = lexref::lex_opts(s, true) else { return false };
    let sig: Vec<&lexref::Lx> = lx.iter().filter(|l| !lexref::is_trivia(l.k)).collect();
    sig.windows(2).any(|w| matches!(w[0].k, K::Str | K::EscId) && w[1].k == K::Bt)
}

/// F4 (glued expansions) is recognised by repairing the input: with a blank on both sides of every
/// directive / macro usage (and behind a usage's argument list) the run must succeed and its output
/// must be a fixed point (up to the exactly modelled F1 duplication)
fn glue_repaired_is_fixed_point(src: &str, defs: &Defs) -> bool {
    let Ok(lx) = lexref::lex(src) else { return false };
    let mut padded = String::new();
    let mut i = 0;
    while i < lx.len() {
        let l = &lx[i];
        if l.k == K::Bt {
            padded.push(' ');
            padded.push_str(&src[l.b..l.e]);
            // an argument list directly behind the name stays attached to it
            // (only a list that is closed, and that holds no further directive / usage)
            let closed = {
                let mut depth = 0i32;
                let mut ok = false;
                for l2 in &lx[i + 1..] {
                    let t = &src[l2.b..l2.e];
                    if l2.k == K::Bt {
                        break;
                    }
                    if l2.k == K::Punct && t == "(" {
                        depth += 1;
                    } else if l2.k == K::Punct && t == ")" {
                        depth -= 1;
                        if depth == 0 {
                            ok = true;
                            break;
                        }
                    }
                }
                ok
            };
            if closed && i + 1 < lx.len() && &src[lx[i + 1].b..lx[i + 1].e] == "(" {
                let mut depth = 0i32;
                let mut j = i + 1;
                while j < lx.len() {
                    let t = &src[lx[j].b..lx[j].e];
                    padded.push_str(t);
                    if lx[j].k == K::Punct {
                        if t == "(" {
                            depth += 1;
                        } else if t == ")" {
                            depth -= 1;
                            if depth == 0 {
                                break;
                            }
                        }
                    }
                    j += 1;
                }
                i = j;
            }
            padded.push(' ');
        } else {
            padded.push_str(&src[l.b..l.e]);
        }
        i += 1;
    }
    let run = |t: &str| match api::pp_str(t, Path::new("top.sv"), defs, &[] as &[PathBuf], false, false) {
        Ok(Ok((pt, _))) => Some(pt.text().to_string()),
        _ => None,
    };
    let Some(first) = run(&padded) else { return false };
    let Some(second) = run(&first) else { return false };
    second == first || lexref::emulate_p1(&first, false).as_deref() == Some(second.as_str()) || literal_then_trivia_directive(&first)
}

/// ... by a directive that the preprocessor grammar accepts as trailing trivia (all but `resetall)
pub fn literal_then_trivia_directive(s: &str) -> bool {
    let Ok(lx) = lexref::lex(s) else { return false };
    let sig: Vec<&lexref::Lx> = lx.iter().filter(|l| !lexref::is_trivia(l.k)).collect();
    sig.windows(2).any(|w| matches!(w[0].k, K::Str | K::EscId) && w[1].k == K::Bt && &s[w[1].b..w[1].e] != "`resetall")
}

/// remove all trivia that directly follows a string literal / escaped identifier
fn drop_trivia_after_literals(s: &str) -> Option<String> {
    let lx = lexref::lex(s).ok()?;
    let mut out = String::new();
    let mut after_lit = false;
    for l in &lx {
        if lexref::is_trivia(l.k) && after_lit {
            continue;
        }
        after_lit = matches!(l.k, K::Str | K::EscId);
        out.push_str(&s[l.b..l.e]);
    }
    Some(out)
}

fn identity(acc: &mut Acc, s: &str, what: &str) {
    let path = Path::new("top.sv");
    let lx = lexref::lex(s);
    let case = || json!({"what": what, "source": s});
    acc.transitions += 1;
    let r = api::pp_str(s, path, &Defs::new(), &[] as &[PathBuf], false, false);
    match (&lx, r) {
        (_, Err(p)) => {
            acc.class("violation");
            acc.violation(None, case(), format!("preprocess_str panicked on {:?}: {}", s, p));
        }
        (Ok(l), Ok(res)) if lexref::directive_free(l) => {
            acc.traces += 1;
            acc.nontrivial += 1;
            match res {
                Err(e) => {
                    acc.class("violation");
                    acc.violation(None, case(), format!("well-formed directive-free text {:?} is rejected: {}", s, err_sig(&e)));
                }
                Ok((pt, _)) => {
                    if pt.text() != s {
                        acc.class("violation");
                        let sig = if lexref::emulate_p1(s, false).as_deref() == Some(pt.text()) { Some(SIG_P1.to_string()) } else { None };
                        acc.violation(sig, case(), format!("directive-free text {:?} comes out as {:?}", s, pt.text()));
                        return;
                    }
                    for i in 0..s.len() {
                        let o = pt.origin(i).map(|(p, o)| (p.clone(), o));
                        if o != Some((path.to_path_buf(), i)) {
                            acc.class("violation");
                            acc.violation(None, case(), format!("origin({}) of identity output {:?} is {:?}, expected (top.sv, {})", i, s, o, i));
                            return;
                        }
                    }
                    acc.class("identity");
                    acc.sample(|| json!({"source": s}));
                    // fixed point
                    fixed_point(acc, s, &Defs::new(), what);
                }
            }
        }
        (Ok(_), Ok(res)) => {
            // has directives: only the fixed-point half applies
            if let Ok((pt, _)) = res {
                acc.class("has-directives-ok");
                fixed_point_src(acc, pt.text(), &Defs::new(), what, Some(s));
            } else {
                acc.class("has-directives-err");
            }
        }
        (Err(_), Ok(_)) => {
            // ill-formed: any non-panicking answer is allowed
            acc.class("ill-formed");
        }
    }
}

/// `out` is the text of a successful run: preprocessing it again must reproduce it
pub fn fixed_point(acc: &mut Acc, out: &str, defs: &Defs, what: &str) {
    fixed_point_src(acc, out, defs, what, None)
}

pub fn fixed_point_src(acc: &mut Acc, out: &str, defs: &Defs, what: &str, src: Option<&str>) {
    acc.transitions += 1;
    acc.traces += 1;
    let case = || json!({"what": what, "source": src, "first_output": clip(out, 1500)});
    match api::pp_str(out, Path::new("top.sv"), defs, &[] as &[PathBuf], false, false) {
        Ok(Ok((pt, _))) => {
            if pt.text() != out {
                acc.class("violation");
                // F1 has an exact model where only white space and comments follow the literal
                // (lexref::emulate_p1); where a directive other than `resetall follows it (which the
                // preprocessor grammar makes part of the literal's trailing trivia) it is recognised by
                // its cause only
                let sig = if literal_then_trivia_directive(out) {
                    match (drop_trivia_after_literals(out), drop_trivia_after_literals(pt.text())) {
                        (Some(a), Some(b)) if a == b => Some(SIG_P1.to_string()),
                        _ => Some(SIG_P1D.to_string()),
                    }
                } else {
                    match lexref::emulate_p1(out, false) {
                        Some(e) if e == pt.text() => Some(SIG_P1.to_string()),
                        Some(_) if src.map(|x| directive_attached(x) && glue_repaired_is_fixed_point(x, defs)).unwrap_or(false) => Some(SIG_GLUE.to_string()),
                        Some(_) => None,
                        None => match (drop_trivia_after_literals(out), drop_trivia_after_literals(pt.text())) {
                            (Some(a), Some(b)) if a == b => Some(SIG_P1.to_string()),
                            _ if src.map(|x| directive_attached(x) && glue_repaired_is_fixed_point(x, defs)).unwrap_or(false) => Some(SIG_GLUE.to_string()),
                            _ => None,
                        },
                    }
                };
                acc.violation(sig, case(), format!("output is not a fixed point: {:?} becomes {:?}", clip(out, 300), clip(pt.text(), 300)));
            } else {
                acc.class("fixed-point");
            }
        }
        Ok(Err(e)) => {
            acc.class("violation");
            let sig = if src.map(|x| directive_attached(x) && glue_repaired_is_fixed_point(x, defs)).unwrap_or(false) { Some(SIG_GLUE.to_string()) } else { None };
            acc.violation(sig, case(), format!("output {:?} of a successful run is rejected when fed back: {}", clip(out, 300), err_sig(&e)));
        }
        Err(p) => {
            acc.class("violation");
            acc.violation(None, case(), format!("panic when feeding back {:?}: {}", clip(out, 300), p));
        }
    }
}

pub fn build(tier: Tier) -> Check<'static> {
    let mut c = Check::new("C06", tier, "6/C06");
    c.rule = "all strings over the 12-character alphabet up to length 5 (quick) / 7 (thorough) classified by the reference lexer; directive-free well-formed ones must come out identical with identity origins; every successful output (also of all token soups <= 3 / 4 with directives) is fed back once; non-trivial = directive-free well-formed strings, distinct by construction".into();
    c.assumptions = vec!["reference lexer models/lexref.rs decides 'directive-free' and 'well-formed'".into()];
    {
        let sp = soup::sigma_c(0, tier.pick(5, 7));
        c.parts.push(Part::new("char-strings", sp.len(), "all strings over {a 1 blank \\n \\r \\t \" \\\\ / * ` é}", move |i, acc| {
            identity(acc, &sp.get(i), "character string");
        }));
    }
    {
        // a second, wider lexical alphabet at smaller length: more escapes and comment openers
        let alpha: [&'static str; 16] = ["a", "_", "$", "0", " ", "\n", "\"", "\\", "\\\"", "/", "*", "//", "/*", "*/", "é", "\t"];
        let sp = soup::strings(&alpha, 0, tier.pick(4, 5), &[""]);
        c.parts.push(Part::new("lexical-pieces", sp.len(), "all sequences <= 4 (quick) / 5 (thorough) of 16 lexical pieces (escaped quote, comment openers/closers, $ and _ in words)", move |i, acc| {
            identity(acc, &sp.get(i), "lexical pieces");
        }));
    }
    {
        // long directive-free texts: many origin segments (the origin map is a B-tree whose lookup
        // behaviour depends on the number and sizes of the segments), every byte probed
        let pieces: [&'static str; 8] = ["ab ", "\"s\"", " /* c */ ", "x;\n", "// d\n", "\\esc ", "1 + 2\t", "é "];
        let maxk = tier.pick(40usize, 120usize);
        let n = (maxk as u64) * 8 * 8;
        c.parts.push(Part::new("long-texts", n, "texts of k = 1..40 (thorough: 120) pieces cycling through 8 lexical pieces from every start with every stride", move |i, acc| {
            let k = (i / 64) as usize + 1;
            let start = ((i / 8) % 8) as usize;
            let stride = (i % 8) as usize + 1;
            let mut s = String::new();
            for j in 0..k {
                s.push_str(pieces[(start + j * stride) % 8]);
            }
            identity(acc, &s, "long text");
        }));
    }
    {
        // literals next to kept directives: the output must be a fixed point whatever stands around them
        let alpha: [&'static str; 12] = ["\"s\"", "\\e ", "a", " ", "\n", "`resetall\n", "`celldefine", "//c\n", "/*c*/", "`timescale 1ns/1ps", "`define A \"d\" x\n", ";"];
        let sp = soup::strings(&alpha, 0, tier.pick(4, 5), &[""]);
        c.parts.push(Part::new("directive-pieces", sp.len(), "all sequences <= 4 (quick) / 5 (thorough) of 12 pieces: string, escaped identifier, word, blank, line end, `resetall, `celldefine, comments, `timescale, a `define holding a string", move |i, acc| {
            identity(acc, &sp.get(i), "directive pieces");
        }));
    }
    {
        let sp = soup::sigma_t(0, tier.pick(3, 4));
        c.parts.push(Part::new("token-soup-outputs", sp.len(), "outputs of all token soups (with directives) fed back", move |i, acc| {
            identity(acc, &sp.get(i), "token soup");
        }));
    }
    c
}
