//! Finite, randomly addressable enumerations. A `Space<T>` is a bijection between
//! `0..n` and the members of a finite set; products, sums and bounded sequences of spaces
//! are spaces again, so "all programs of profile P up to size k" is a value that can be
//! sharded over workers, re-addressed by index for replay, and counted exactly.

use std::sync::Arc;

pub struct Space<T> {
    n: u64,
    f: Arc<dyn Fn(u64) -> T + Send + Sync>,
}

impl<T> Clone for Space<T> {
    fn clone(&self) -> Self {
        Space { n: self.n, f: self.f.clone() }
    }
}

impl<T: 'static> Space<T> {
    pub fn new(n: u64, f: impl Fn(u64) -> T + Send + Sync + 'static) -> Self {
        Space { n, f: Arc::new(f) }
    }
    pub fn len(&self) -> u64 {
        self.n
    }
    pub fn get(&self, i: u64) -> T {
        assert!(i < self.n, "space index {} out of range {}", i, self.n);
        (self.f)(i)
    }
    pub fn empty() -> Self {
        Space::new(0, |_| unreachable!())
    }
    pub fn map<U: 'static>(self, g: impl Fn(T) -> U + Send + Sync + 'static) -> Space<U> {
        let f = self.f;
        Space::new(self.n, move |i| g(f(i)))
    }
    /// cartesian product, `self` varies slowest
    pub fn product<U: 'static>(self, o: Space<U>) -> Space<(T, U)> {
        let n = self.n.checked_mul(o.n).expect("space too large");
        let (f, g, m) = (self.f, o.f, o.n);
        Space::new(n, move |i| (f(i / m), g(i % m)))
    }
    /// disjoint union, in order
    pub fn sum(parts: Vec<Space<T>>) -> Space<T> {
        let mut n = 0u64;
        let mut starts = Vec::new();
        for p in &parts {
            starts.push(n);
            n = n.checked_add(p.n).expect("space too large");
        }
        Space::new(n, move |i| {
            let k = starts.partition_point(|&s| s <= i) - 1;
            parts[k].get(i - starts[k])
        })
    }
    /// all sequences of exactly k members (first member varies slowest)
    pub fn seq_exact(&self, k: usize) -> Space<Vec<T>> {
        let base = self.n;
        let n = base.checked_pow(k as u32).expect("space too large");
        let f = self.f.clone();
        Space::new(n, move |mut i| {
            let mut idx = vec![0u64; k];
            for j in (0..k).rev() {
                idx[j] = i % base.max(1);
                i /= base.max(1);
            }
            idx.into_iter().map(|x| f(x)).collect()
        })
    }
    /// all sequences of length lo..=hi, shortest first
    pub fn seq_range(&self, lo: usize, hi: usize) -> Space<Vec<T>> {
        Space::sum((lo..=hi).map(|k| self.seq_exact(k)).collect())
    }
}

impl<T: Clone + Send + Sync + 'static> Space<T> {
    pub fn of(v: Vec<T>) -> Self {
        let n = v.len() as u64;
        Space::new(n, move |i| v[i as usize].clone())
    }
    pub fn unit(v: T) -> Self {
        Space::new(1, move |_| v.clone())
    }
}

#[cfg(test)]
mod tests {
    use super::*;
    #[test]
    fn seqs() {
        let s = Space::of(vec!['a', 'b']);
        let q = s.seq_range(0, 2);
        assert_eq!(q.len(), 7);
        let all: Vec<String> = (0..7).map(|i| q.get(i).into_iter().collect()).collect();
        assert_eq!(all, vec!["", "a", "b", "aa", "ab", "ba", "bb"]);
    }
}
