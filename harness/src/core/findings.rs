//! known_findings.txt: committed, read-only at run time.
//!   finding: property=<id> sig=<signature> <free text: what fails>
//!   fixed: property=<id> <commit> <free text: what failed>      (suppresses nothing)

use std::path::Path;

#[derive(Default)]
pub struct Findings {
    entries: Vec<(String, String, String)>,
}

impl Findings {
    pub fn load(p: &Path) -> Self {
        let mut entries = vec![];
        if let Ok(s) = std::fs::read_to_string(p) {
            for l in s.lines() {
                let l = l.trim();
                if let Some(rest) = l.strip_prefix("finding:") {
                    let mut prop = None;
                    let mut sig = None;
                    let mut text = vec![];
                    for w in rest.split_whitespace() {
                        if prop.is_none() && w.starts_with("property=") {
                            prop = Some(w["property=".len()..].to_string());
                        } else if sig.is_none() && w.starts_with("sig=") {
                            sig = Some(w["sig=".len()..].to_string());
                        } else {
                            text.push(w);
                        }
                    }
                    if let (Some(p), Some(s)) = (prop, sig) {
                        entries.push((p, s, text.join(" ")));
                    }
                }
            }
        }
        Findings { entries }
    }
    pub fn is_known(&self, prop: &str, sig: &str) -> bool {
        self.entries.iter().any(|(p, s, _)| p == prop && s == sig)
    }
    pub fn describe(&self, prop: &str, sig: &str) -> String {
        self.entries
            .iter()
            .find(|(p, s, _)| p == prop && s == sig)
            .map(|e| e.2.clone())
            .unwrap_or_default()
    }
}
