//! Exhaustive runner: every index of every part of a check is executed exactly once,
//! spread over worker threads; per-thread accumulators are merged into one report from
//! which the evidence file, the VIOLATION / KNOWN-FINDING lines and the exit code derive.

use serde_json::{json, Value};
use std::collections::{BTreeMap, BTreeSet, HashSet};
use std::io::Write;
use std::sync::atomic::{AtomicBool, AtomicU64, Ordering};
use std::sync::Mutex;
use std::time::{Duration, Instant};

use super::findings::Findings;

#[derive(Clone, Copy, PartialEq, Eq, Debug)]
pub enum Tier {
    Quick,
    Thorough,
}
impl Tier {
    pub fn name(self) -> &'static str {
        match self {
            Tier::Quick => "quick",
            Tier::Thorough => "thorough",
        }
    }
    pub fn pick<T>(self, q: T, t: T) -> T {
        match self {
            Tier::Quick => q,
            Tier::Thorough => t,
        }
    }
}

#[derive(Clone, Debug)]
pub struct Violation {
    pub part: String,
    pub index: u64,
    /// signature used to match a line of known_findings.txt (None = can never be known)
    pub sig: Option<String>,
    pub case: Value,
    pub detail: String,
}

/// Per-thread accumulator.
#[derive(Default)]
pub struct Acc {
    pub part: String,
    pub index: u64,
    pub evaluations: u64,
    /// number of library calls made (transitions)
    pub transitions: u64,
    /// number of reference-model predictions compared with the implementation
    pub traces: u64,
    /// non-trivial cases that are distinct by construction of the enumeration
    pub nontrivial: u64,
    /// hashes of non-trivial cases whose distinctness has to be measured
    pub nontrivial_hashes: HashSet<u64>,
    pub classes: BTreeMap<String, u64>,
    pub counters: BTreeMap<String, u64>,
    pub sets: BTreeMap<String, BTreeSet<String>>,
    pub samples: Vec<Value>,
    pub sample_cap: usize,
    pub violations: Vec<Violation>,
    pub violation_count: u64,
    pub known: BTreeMap<String, (u64, String)>,
    pub findings: Option<std::sync::Arc<Findings>>,
    pub prop: &'static str,
}

impl Acc {
    /// an empty accumulator for a silent re-execution (known-finding signatures by repaired input)
    pub fn scratch(&self) -> Acc {
        Acc {
            part: self.part.clone(),
            index: self.index,
            evaluations: 0,
            transitions: 0,
            traces: 0,
            nontrivial: 0,
            nontrivial_hashes: HashSet::new(),
            classes: BTreeMap::new(),
            counters: BTreeMap::new(),
            sets: BTreeMap::new(),
            samples: vec![],
            sample_cap: 0,
            violations: vec![],
            violation_count: 0,
            known: BTreeMap::new(),
            findings: self.findings.clone(),
            prop: self.prop,
        }
    }
    pub fn class(&mut self, c: &str) {
        *self.classes.entry(c.to_string()).or_insert(0) += 1;
    }
    pub fn count(&mut self, c: &str, n: u64) {
        *self.counters.entry(c.to_string()).or_insert(0) += n;
    }
    pub fn set_insert(&mut self, set: &str, v: &str) {
        let s = self.sets.entry(set.to_string()).or_default();
        if !s.contains(v) {
            s.insert(v.to_string());
        }
    }
    pub fn sample(&mut self, v: impl FnOnce() -> Value) {
        if self.samples.len() < self.sample_cap {
            let v = v();
            self.samples.push(v);
        }
    }
    pub fn distinct(&mut self, h: u64) {
        self.nontrivial_hashes.insert(h);
    }
    pub fn violation(&mut self, sig: Option<String>, case: Value, detail: String) {
        if let (Some(s), Some(f)) = (&sig, &self.findings) {
            if f.is_known(self.prop, s) {
                let e = self.known.entry(s.clone()).or_insert((0, detail));
                e.0 += 1;
                return;
            }
        }
        self.violation_count += 1;
        if self.violations.len() < 400 {
            self.violations.push(Violation {
                part: self.part.clone(),
                index: self.index,
                sig,
                case,
                detail,
            });
        }
    }
    fn merge(&mut self, o: Acc) {
        self.evaluations += o.evaluations;
        self.transitions += o.transitions;
        self.traces += o.traces;
        self.nontrivial += o.nontrivial;
        self.nontrivial_hashes.extend(o.nontrivial_hashes);
        for (k, v) in o.classes {
            *self.classes.entry(k).or_insert(0) += v;
        }
        for (k, v) in o.counters {
            *self.counters.entry(k).or_insert(0) += v;
        }
        for (k, v) in o.sets {
            self.sets.entry(k).or_default().extend(v);
        }
        for s in o.samples {
            if self.samples.len() < 12 {
                self.samples.push(s);
            }
        }
        self.violation_count += o.violation_count;
        self.violations.extend(o.violations);
        for (k, (n, d)) in o.known {
            let e = self.known.entry(k).or_insert((0, d));
            e.0 += n;
        }
    }
}

pub struct Part<'a> {
    pub name: String,
    pub size: u64,
    pub rule: String,
    pub run: Box<dyn Fn(u64, &mut Acc) + Sync + Send + 'a>,
    /// run single-threaded (for parts that fork threads / chdir themselves)
    pub serial: bool,
}

impl<'a> Part<'a> {
    pub fn new(
        name: &str,
        size: u64,
        rule: &str,
        run: impl Fn(u64, &mut Acc) + Sync + Send + 'a,
    ) -> Self {
        Part { name: name.to_string(), size, rule: rule.to_string(), run: Box::new(run), serial: false }
    }
    pub fn serial(mut self) -> Self {
        self.serial = true;
        self
    }
}

pub struct Check<'a> {
    pub id: &'static str,
    pub tier: Tier,
    pub parts: Vec<Part<'a>>,
    pub rule: String,
    pub assumptions: Vec<String>,
    pub design_ref: &'static str,
    /// extra keys merged into coverage after the run (e.g. a BFS report)
    pub extra: Mutex<BTreeMap<String, Value>>,
    /// when set, `states` in the evidence is taken from here instead of evaluations
    pub states_override: Mutex<Option<u64>>,
}

impl<'a> Check<'a> {
    pub fn new(id: &'static str, tier: Tier, design_ref: &'static str) -> Self {
        Check {
            id,
            tier,
            parts: vec![],
            rule: String::new(),
            assumptions: vec![],
            design_ref,
            extra: Mutex::new(BTreeMap::new()),
            states_override: Mutex::new(None),
        }
    }
}

pub fn verif_dir() -> std::path::PathBuf {
    std::env::var("VERIF_DIR").map(Into::into).unwrap_or_else(|_| "/verif".into())
}

pub fn n_workers() -> usize {
    std::env::var("VERIF_WORKERS").ok().and_then(|s| s.parse().ok()).unwrap_or_else(|| {
        std::thread::available_parallelism().map(|n| n.get()).unwrap_or(8).min(16)
    })
}

pub const WORKER_STACK: usize = 512 << 20;

fn cur_file(prop: &str, w: usize) -> std::path::PathBuf {
    let d = verif_dir().join(".work").join(prop);
    let _ = std::fs::create_dir_all(&d);
    d.join(format!("cur.{}", w))
}

pub struct RunOpts {
    pub only: Option<(String, u64)>,
    pub budget: Duration,
    pub seed: u64,
}

pub struct Report {
    pub acc: Acc,
    pub wall: f64,
    pub capped: bool,
    pub part_info: Vec<Value>,
}

pub fn run_check(check: &Check, opts: &RunOpts) -> Report {
    let start = Instant::now();
    let deadline = start + opts.budget;
    let mut total = Acc::default();
    total.sample_cap = 12;
    let findings = std::sync::Arc::new(Findings::load(&verif_dir().join("known_findings.txt")));
    let mut capped = false;
    let mut part_info = vec![];
    for part in &check.parts {
        if let Some((p, _)) = &opts.only {
            if *p != part.name {
                continue;
            }
        }
        let pstart = Instant::now();
        let next = AtomicU64::new(0);
        let stop = AtomicBool::new(false);
        let done = AtomicU64::new(0);
        let nw = if part.serial || opts.only.is_some() { 1 } else { n_workers().min(part.size.max(1) as usize) };
        let chunk: u64 = (part.size / (nw as u64 * 64)).clamp(1, 256);
        let accs: Mutex<Vec<Acc>> = Mutex::new(vec![]);
        // rotate the starting point with the seed: order only, never membership
        let rot = if part.size > 0 { opts.seed % part.size } else { 0 };
        std::thread::scope(|sc| {
            for w in 0..nw {
                let (next, stop, done, accs, part, check) = (&next, &stop, &done, &accs, part, check);
                let only = opts.only.clone();
                let findings = findings.clone();
                std::thread::Builder::new()
                    .stack_size(WORKER_STACK)
                    .name(format!("w{}", w))
                    .spawn_scoped(sc, move || {
                        let mut acc = Acc::default();
                        acc.part = part.name.clone();
                        acc.sample_cap = 2;
                        acc.findings = Some(findings);
                        acc.prop = check.id;
                        let mut cf = std::fs::OpenOptions::new()
                            .create(true)
                            .write(true)
                            .truncate(true)
                            .open(cur_file(check.id, w))
                            .ok();
                        let mut run_one = |i: u64, acc: &mut Acc| {
                            if let Some(f) = cf.as_mut() {
                                use std::os::unix::fs::FileExt;
                                let s = format!("{:<40} {:>20}\n", part.name, i);
                                let _ = f.write_at(s.as_bytes(), 0);
                            }
                            acc.index = i;
                            acc.evaluations += 1;
                            // a panic of the judging code means the library answered with something the
                            // oracle cannot even take apart (e.g. offsets outside the text): reported as a
                            // violation of this case, with its replay, instead of killing the whole run
                            let r = std::panic::catch_unwind(std::panic::AssertUnwindSafe(|| (part.run)(i, &mut *acc)));
                            if let Err(e) = r {
                                let msg = e.downcast_ref::<String>().cloned().or_else(|| e.downcast_ref::<&str>().map(|s| s.to_string())).unwrap_or_else(|| "panic".to_string());
                                acc.class("violation");
                                acc.violation(None, json!({"part": part.name, "index": i}), format!("the oracle panicked while taking the library's answer apart ({}): the answer has a shape that no implementation satisfying the property produces - replay this case", msg));
                            }
                        };
                        if let Some((_, i)) = only {
                            run_one(i, &mut acc);
                        } else {
                            loop {
                                if stop.load(Ordering::Relaxed) {
                                    break;
                                }
                                let b = next.fetch_add(chunk, Ordering::Relaxed);
                                if b >= part.size {
                                    break;
                                }
                                let e = (b + chunk).min(part.size);
                                for j in b..e {
                                    let i = (j + rot) % part.size;
                                    run_one(i, &mut acc);
                                }
                                done.fetch_add(e - b, Ordering::Relaxed);
                                if Instant::now() > deadline {
                                    stop.store(true, Ordering::Relaxed);
                                }
                            }
                        }
                        if let Some(f) = cf.as_mut() {
                            use std::os::unix::fs::FileExt;
                            let s = format!("{:<40} {:>20}\n", "-", 0);
                            let _ = f.write_at(s.as_bytes(), 0);
                        }
                        accs.lock().unwrap().push(acc);
                    })
                    .expect("spawn worker");
            }
        });
        let part_capped = stop.load(Ordering::Relaxed) && done.load(Ordering::Relaxed) < part.size;
        capped |= part_capped;
        let mut pe = 0;
        for a in accs.into_inner().unwrap() {
            pe += a.evaluations;
            total.merge(a);
        }
        part_info.push(json!({
            "part": part.name, "size": part.size, "executed": pe, "complete": !part_capped && opts.only.is_none(),
            "rule": part.rule, "wall_s": pstart.elapsed().as_secs_f64(),
        }));
        if std::env::var("VERIF_VERBOSE").is_ok() {
            eprintln!("[{}] part {} size {} executed {} in {:.1}s", check.id, part.name, part.size, pe, pstart.elapsed().as_secs_f64());
        }
    }
    Report { acc: total, wall: start.elapsed().as_secs_f64(), capped, part_info }
}

/// Classify violations against the known-findings file, write replay files and the
/// evidence file, print the protocol lines; returns the process exit code.
pub fn finish(check: &Check, opts: &RunOpts, mut rep: Report) -> i32 {
    let vd = verif_dir();
    let findings = Findings::load(&vd.join("known_findings.txt"));
    rep.acc.violations.sort_by(|a, b| (a.part.as_str(), a.index).cmp(&(b.part.as_str(), b.index)));
    let unknown: Vec<Violation> = std::mem::take(&mut rep.acc.violations);
    let known = std::mem::take(&mut rep.acc.known);
    {
        // triage aid (not part of the protocol): one line per collected violation
        let d = vd.join(".work").join(check.id);
        let _ = std::fs::create_dir_all(&d);
        let mut out = String::new();
        for v in &unknown {
            out.push_str(&format!("{}\t{}\t{}{}\n", v.part, v.index, v.sig.as_ref().map(|s| format!("[sig {}] ", s)).unwrap_or_default(), v.detail.replace('\n', " ⏎ ")));
        }
        let _ = std::fs::write(d.join("violations.txt"), out);
    }
    let replay_dir = vd.join("replays").join(check.id);
    let mut lines = vec![];
    if !unknown.is_empty() {
        let _ = std::fs::create_dir_all(&replay_dir);
        for (k, v) in unknown.iter().enumerate() {
            if k >= 8 {
                break;
            }
            let path = replay_dir.join(format!("{}-{}.json", v.part, v.index));
            let body = json!({
                "property": check.id, "tier": check.tier.name(), "part": v.part, "index": v.index,
                "signature": v.sig, "case": v.case, "detail": v.detail,
                "replay": format!("./check replay {}", path.display()),
            });
            if let Ok(mut f) = std::fs::File::create(&path) {
                let _ = f.write_all(serde_json::to_string_pretty(&body).unwrap().as_bytes());
            }
            lines.push(format!("VIOLATION property={} replay={}", check.id, path.display()));
            eprintln!("--- {} part={} index={}\n{}\n", check.id, v.part, v.index, v.detail);
        }
    }
    for (s, (n, _)) in &known {
        let what = findings.describe(check.id, s);
        println!("KNOWN-FINDING: property={} {} [{} case(s) this run] {}", check.id, s, n, what);
    }
    let a = &rep.acc;
    let distinct_nontrivial = a.nontrivial + a.nontrivial_hashes.len() as u64;
    let exhaustive = !rep.capped && opts.only.is_none();
    let mut coverage = serde_json::Map::new();
    let states = check.states_override.lock().unwrap().unwrap_or(a.evaluations);
    coverage.insert("states".into(), json!(states.max(1)));
    coverage.insert("transitions".into(), json!(a.transitions.max(1)));
    coverage.insert("traces_validated_against_impl".into(), json!(a.traces));
    coverage.insert("evaluations".into(), json!(a.evaluations));
    coverage.insert("distinct_nontrivial".into(), json!(distinct_nontrivial));
    coverage.insert("rule".into(), json!(check.rule));
    coverage.insert("exhaustive".into(), json!(exhaustive));
    coverage.insert(
        "samples".into(),
        if a.samples.is_empty() { json!(["(no sample recorded)"]) } else { json!(a.samples) },
    );
    coverage.insert("parts".into(), json!(rep.part_info));
    coverage.insert("outcome_classes".into(), json!(a.classes));
    coverage.insert("counters".into(), json!(a.counters));
    let mut sets = serde_json::Map::new();
    for (k, v) in &a.sets {
        let list: Vec<&String> = v.iter().take(400).collect();
        sets.insert(k.clone(), json!({"count": v.len(), "members": list}));
    }
    coverage.insert("sets".into(), Value::Object(sets));
    coverage.insert(
        "known_findings_hit".into(),
        json!(known.iter().map(|(s, (n, _))| json!({"signature": s, "cases": n})).collect::<Vec<_>>()),
    );
    coverage.insert("workers".into(), json!(n_workers()));
    if rep.capped {
        coverage.insert(
            "cap".into(),
            json!(format!("wall-clock budget of {} s reached; see parts[].executed", opts.budget.as_secs())),
        );
    }
    for (k, v) in check.extra.lock().unwrap().iter() {
        coverage.insert(k.clone(), v.clone());
    }
    let ev = json!({
        "property_id": check.id,
        "tier": check.tier.name(),
        "seed": opts.seed,
        "level": "model_checking",
        "coverage": Value::Object(coverage),
        "assumptions": check.assumptions,
        "wall_s": rep.wall,
        "violations": a.violation_count,
        "design_ref": check.design_ref,
    });
    if opts.only.is_none() {
        let dir = vd.join("evidence");
        let _ = std::fs::create_dir_all(&dir);
        let p = dir.join(format!("{}.json", check.id));
        std::fs::write(&p, serde_json::to_string_pretty(&ev).unwrap()).expect("write evidence");
    }
    for l in &lines {
        println!("{}", l);
    }
    println!(
        "{} {} : {} cases, {} non-trivial distinct, {} library calls, {} model predictions compared, {} violation(s), {} known finding(s), exhaustive={} in {:.1}s",
        check.id, check.tier.name(), a.evaluations, distinct_nontrivial, a.transitions, a.traces,
        a.violation_count, known.len(), exhaustive, rep.wall
    );
    if a.violation_count == 0 {
        0
    } else {
        1
    }
}
