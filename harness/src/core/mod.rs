pub mod findings;
pub mod run;
pub mod space;
