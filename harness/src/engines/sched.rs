//! E6: a CHESS-style stateless model checker over real OS threads. Exactly one thread runs at a
//! time; at every hook point of the library (cargo feature `verif`: init, white_space,
//! is_keyword, begin/end_directive, begin/end_keywords, clear_*, memo_get/insert) the running
//! thread asks the scheduler who goes next. Schedules are choice sequences; the explorer
//! enumerates all of them depth-first under a preemption bound.

use std::sync::{Arc, Condvar, Mutex};
use std::time::{Duration, Instant};

#[derive(Clone, Debug)]
pub struct Point {
    pub tid: usize,
    pub name: &'static str,
    /// number of enabled threads at this point (choices 0..n)
    pub n_enabled: usize,
    pub choice: usize,
    /// the thread that ran was still enabled (true at hook points, false at thread exit)
    pub running_enabled: bool,
    /// another thread's keyword-version / directive stack was non-empty at this point
    pub other_state_open: bool,
}

struct St {
    current: usize,
    done: Vec<bool>,
    prefix: Vec<usize>,
    trace: Vec<Point>,
    /// last state each thread reported: (directive depth, version stack length)
    open: Vec<bool>,
    horizon: usize,
    dead: Option<String>,
}

pub struct Sched {
    st: Mutex<St>,
    cv: Condvar,
    n: usize,
    filter: fn(&'static str) -> bool,
}

thread_local! {
    static CTX: std::cell::RefCell<Option<(Arc<Sched>, usize)>> = std::cell::RefCell::new(None);
}

fn hook(name: &'static str) {
    let ctx = CTX.with(|c| c.borrow().clone());
    if let Some((s, tid)) = ctx {
        if (s.filter)(name) {
            s.point(tid, name, true);
        }
    }
}

impl Sched {
    fn enabled(st: &St, running: usize, running_enabled: bool, n: usize) -> Vec<usize> {
        // canonical order: the running thread first if still enabled, then ascending ids
        let mut v = vec![];
        if running_enabled {
            v.push(running);
        }
        for t in 0..n {
            if t != running && !st.done[t] {
                v.push(t);
            }
        }
        v
    }

    fn point(&self, tid: usize, name: &'static str, running_enabled: bool) {
        let mut st = self.st.lock().unwrap();
        if st.dead.is_some() {
            return;
        }
        if running_enabled {
            // (the memo hooks fire while the table is mutably borrowed: keep the last known state)
            if !name.starts_with("memo_") {
                let (_, dir, ver) = sv_parser_parser::verif::thread_state();
                st.open[tid] = dir > 0 || !ver.is_empty();
            }
        } else {
            st.open[tid] = false;
            st.done[tid] = true;
        }
        let en = Self::enabled(&st, tid, running_enabled, self.n);
        if en.is_empty() {
            self.cv.notify_all();
            return;
        }
        let pos = st.trace.len();
        if pos >= st.horizon {
            st.dead = Some(format!("horizon of {} scheduling points exceeded", st.horizon));
            self.cv.notify_all();
            return;
        }
        let choice = if pos < st.prefix.len() { st.prefix[pos] } else { 0 };
        if choice >= en.len() {
            st.dead = Some(format!("replay diverged: choice {} at point {} but only {} thread(s) enabled", choice, pos, en.len()));
            self.cv.notify_all();
            return;
        }
        let other_open = (0..self.n).any(|t| t != tid && st.open[t]);
        st.trace.push(Point { tid, name, n_enabled: en.len(), choice, running_enabled, other_state_open: other_open });
        let next = en[choice];
        if next != tid || !running_enabled {
            st.current = next;
            self.cv.notify_all();
            if running_enabled {
                let deadline = Instant::now() + Duration::from_secs(30);
                while st.current != tid && st.dead.is_none() {
                    let (g, to) = self.cv.wait_timeout(st, Duration::from_millis(200)).unwrap();
                    st = g;
                    if to.timed_out() && Instant::now() > deadline {
                        st.dead = Some("a thread waited 30 s for its turn (deadlock?)".into());
                        self.cv.notify_all();
                        return;
                    }
                }
            }
        }
    }
}

pub struct Execution<R> {
    pub trace: Vec<Point>,
    pub results: Vec<R>,
    pub dead: Option<String>,
}

/// run the given bodies (one per thread) under the schedule `prefix` (default choice 0 afterwards)
pub fn run<R: Send + 'static>(bodies: &[Arc<dyn Fn() -> R + Send + Sync>], prefix: &[usize], filter: fn(&'static str) -> bool, horizon: usize) -> Execution<R> {
    let n = bodies.len();
    let s = Arc::new(Sched {
        st: Mutex::new(St { current: 0, done: vec![false; n], prefix: prefix.to_vec(), trace: vec![], open: vec![false; n], horizon, dead: None }),
        cv: Condvar::new(),
        n,
        filter,
    });
    let mut handles = vec![];
    for (tid, b) in bodies.iter().enumerate() {
        let s2 = s.clone();
        let b = b.clone();
        handles.push(
            std::thread::Builder::new()
                .stack_size(64 << 20)
                .spawn(move || {
                    // wait for the first turn
                    {
                        let mut st = s2.st.lock().unwrap();
                        while st.current != tid && st.dead.is_none() {
                            st = s2.cv.wait_timeout(st, Duration::from_millis(200)).unwrap().0;
                        }
                    }
                    CTX.with(|c| *c.borrow_mut() = Some((s2.clone(), tid)));
                    sv_parser_parser::verif::set_sched_hook(Some(hook));
                    let r = b();
                    sv_parser_parser::verif::set_sched_hook(None);
                    CTX.with(|c| *c.borrow_mut() = None);
                    s2.point(tid, "exit", false);
                    r
                })
                .expect("spawn"),
        );
    }
    let results: Vec<R> = handles.into_iter().map(|h| h.join().expect("scheduled thread panicked")).collect();
    let st = s.st.lock().unwrap();
    Execution { trace: st.trace.clone(), results, dead: st.dead.clone() }
}

pub struct Explored {
    pub schedules: u64,
    pub points: u64,
    pub max_points: usize,
    pub with_foreign_state_open: u64,
    pub capped: bool,
}

/// depth-first enumeration of all schedules with at most `bound` preemptions; `check` is called
/// on every complete execution and returns Err to report a violation (exploration continues)
pub fn explore<R: Send + 'static>(
    bodies: &[Arc<dyn Fn() -> R + Send + Sync>],
    bound: usize,
    filter: fn(&'static str) -> bool,
    horizon: usize,
    max_schedules: u64,
    check: &mut dyn FnMut(&[usize], &Execution<R>),
) -> Explored {
    let mut ex = Explored { schedules: 0, points: 0, max_points: 0, with_foreign_state_open: 0, capped: false };
    let mut stack: Vec<Vec<usize>> = vec![vec![]];
    while let Some(prefix) = stack.pop() {
        if ex.schedules >= max_schedules {
            ex.capped = true;
            break;
        }
        let x = run(bodies, &prefix, filter, horizon);
        ex.schedules += 1;
        ex.points += x.trace.len() as u64;
        ex.max_points = ex.max_points.max(x.trace.len());
        if x.trace.iter().any(|p| p.other_state_open && (p.name == "is_keyword" || p.name == "white_space")) {
            ex.with_foreign_state_open += 1;
        }
        let choices: Vec<usize> = x.trace.iter().map(|p| p.choice).collect();
        check(&choices, &x);
        // preemptions used before each point
        let mut used = 0usize;
        let mut children = vec![];
        for (i, p) in x.trace.iter().enumerate() {
            if i >= prefix.len() {
                let cost = used + if p.running_enabled { 1 } else { 0 };
                if cost <= bound {
                    for alt in 1..p.n_enabled {
                        let mut c = choices[..i].to_vec();
                        c.push(alt);
                        children.push(c);
                    }
                }
            }
            if p.running_enabled && p.choice != 0 {
                used += 1;
            }
        }
        // depth-first: deepest alternatives first
        stack.extend(children.into_iter());
    }
    ex
}
