//! E1: all strings over a small alphabet up to a length bound.

use crate::core::space::Space;

/// Σc — characters for the preprocessor's lexical layer
pub const SIGMA_C: [&str; 12] = ["a", "1", " ", "\n", "\r", "\t", "\"", "\\", "/", "*", "`", "é"];

/// Σt — tokens (joined with "" or " ")
pub const SIGMA_T: [&str; 32] = [
    "module",
    "endmodule",
    "a",
    ";",
    "(",
    ")",
    "[",
    "]",
    "begin",
    "end",
    "wire",
    "=",
    "1",
    ",",
    "\" s\"",
    "\\e ",
    "//c\n",
    "/*c*/",
    "`define A 1\n",
    "`define F(x) x\n",
    "`A",
    "`F(1)",
    "`ifdef A",
    "`else",
    "`endif",
    "`include \"f\"",
    "`undef A",
    "`__LINE__",
    "`resetall",
    "`timescale 1ns/1ps",
    "`begin_keywords \"1364-2001\"",
    "`end_keywords",
];

/// further tokens only used by the thorough tiers
pub const SIGMA_T_EXTRA: [&str; 6] = ["`line 1 \"f\" 0", "é", "\u{1}", "library", "include", "."];

pub fn strings(alpha: &[&'static str], lo: usize, hi: usize, joiners: &[&'static str]) -> Space<String> {
    let a: Vec<&'static str> = alpha.to_vec();
    let base = Space::of(a);
    let seqs = base.seq_range(lo, hi);
    let j = Space::of(joiners.to_vec());
    j.product(seqs).map(|(j, toks)| toks.join(j))
}

pub fn sigma_c(lo: usize, hi: usize) -> Space<String> {
    strings(&SIGMA_C, lo, hi, &[""])
}

pub fn sigma_t(lo: usize, hi: usize) -> Space<String> {
    strings(&SIGMA_T, lo, hi, &[" ", ""])
}
