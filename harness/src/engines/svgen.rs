//! E3: reference generator for an Annex A subset. The grammar is data (models/sv_grammar.txt);
//! this module parses it and enumerates, exhaustively and addressably:
//!   * for every rule R: every combination of the choices written directly in R's body, the
//!     nonterminals it mentions expanded by default, placed in R's shortest context;
//!   * for every repetition whose element has several alternatives: every ordered pair of them.
//! Each sentence carries facts (node kind(s), token span, bound identifier) for the C02 oracle.

use crate::core::space::Space;
use std::collections::{HashMap, VecDeque};
use std::sync::Arc;

#[derive(Debug, Clone)]
pub enum G {
    Lit(String),
    Ref(usize),
    Opt(Box<G>),
    Rep { g: Box<G>, sep: Option<String>, lo: usize, hi: usize },
    Seq(Vec<G>),
    Alt(Vec<G>),
    Fact { kinds: Arc<Vec<String>>, var: Option<String>, g: Box<G> },
    NewId(String),
    UseId(String),
}

#[derive(Debug, Clone)]
pub enum It {
    Tok(Arc<str>),
    NewId(Arc<str>),
    UseId(Arc<str>),
    Open(Arc<Vec<String>>, Option<Arc<str>>),
    Close,
    Hole,
}

pub struct Grammar {
    pub rules: Vec<(String, G)>,
    pub index: HashMap<String, usize>,
}

const CAP: u64 = 30_000;

// ---------------------------------------------------------------- DSL parser

struct P<'a> {
    toks: Vec<&'a str>,
    pos: usize,
    index: &'a HashMap<String, usize>,
}

fn lex(src: &str) -> Vec<String> {
    let b: Vec<char> = src.chars().collect();
    let mut out = vec![];
    let mut i = 0;
    while i < b.len() {
        let c = b[i];
        if c.is_whitespace() {
            i += 1;
        } else if c == '#' && (i == 0 || b[i - 1] == '\n') {
            while i < b.len() && b[i] != '\n' {
                i += 1;
            }
        } else if c == '"' {
            let mut s = String::from("\"");
            i += 1;
            while b[i] != '"' {
                if b[i] == '\\' {
                    s.push(b[i]);
                    i += 1;
                }
                s.push(b[i]);
                i += 1;
            }
            s.push('"');
            i += 1;
            out.push(s);
        } else if c == ':' && i + 1 < b.len() && b[i + 1] == '=' {
            out.push(":=".into());
            i += 2;
        } else if c.is_alphanumeric() || c == '_' {
            let st = i;
            while i < b.len() && (b[i].is_alphanumeric() || b[i] == '_') {
                i += 1;
            }
            out.push(b[st..i].iter().collect());
        } else {
            out.push(c.to_string());
            i += 1;
        }
    }
    out
}

fn unquote(t: &str) -> String {
    let inner = &t[1..t.len() - 1];
    let mut s = String::new();
    let mut it = inner.chars();
    while let Some(c) = it.next() {
        if c == '\\' {
            if let Some(n) = it.next() {
                s.push(n);
            }
        } else {
            s.push(c);
        }
    }
    s
}

impl<'a> P<'a> {
    fn peek(&self) -> &'a str {
        self.toks.get(self.pos).copied().unwrap_or("")
    }
    fn next(&mut self) -> &'a str {
        let t = self.peek();
        self.pos += 1;
        t
    }
    fn expect(&mut self, t: &str) {
        let g = self.next();
        assert!(g == t, "grammar: expected {:?}, got {:?} near token {}", t, g, self.pos);
    }
    fn alt(&mut self) -> G {
        let mut alts = vec![self.seq()];
        while self.peek() == "|" {
            self.next();
            alts.push(self.seq());
        }
        if alts.len() == 1 {
            alts.pop().unwrap()
        } else {
            G::Alt(alts)
        }
    }
    fn seq(&mut self) -> G {
        let mut items = vec![];
        loop {
            let t = self.peek();
            if t.is_empty() || t == "|" || t == ")" || t == ">" || t == ";" {
                break;
            }
            items.push(self.postfix());
        }
        if items.len() == 1 {
            items.pop().unwrap()
        } else {
            G::Seq(items)
        }
    }
    fn bounds(&mut self) -> (usize, usize) {
        self.expect("{");
        let lo: usize = self.next().parse().expect("lo");
        self.expect(",");
        let hi: usize = self.next().parse().expect("hi");
        self.expect("}");
        (lo, hi)
    }
    fn postfix(&mut self) -> G {
        let mut g = self.atom();
        loop {
            match self.peek() {
                "?" => {
                    self.next();
                    g = G::Opt(Box::new(g));
                }
                "*" => {
                    self.next();
                    let (lo, hi) = self.bounds();
                    g = G::Rep { g: Box::new(g), sep: None, lo, hi };
                }
                "%" => {
                    self.next();
                    let sep = unquote(self.next());
                    let (lo, hi) = self.bounds();
                    g = G::Rep { g: Box::new(g), sep: Some(sep), lo, hi };
                }
                _ => break,
            }
        }
        g
    }
    fn atom(&mut self) -> G {
        let t = self.next();
        if t.starts_with('"') {
            return G::Lit(unquote(t));
        }
        match t {
            "(" => {
                let g = self.alt();
                self.expect(")");
                g
            }
            "<" => {
                let mut kinds = vec![self.next().to_string()];
                while self.peek() == "|" {
                    self.next();
                    kinds.push(self.next().to_string());
                }
                let mut var = None;
                if self.peek() == "#" {
                    self.next();
                    let mut v = self.next().to_string();
                    if self.peek() == "/" {
                        self.next();
                        v = format!("{}/{}", v, self.next());
                    }
                    var = Some(v);
                }
                self.expect(":");
                let g = self.alt();
                self.expect(">");
                G::Fact { kinds: Arc::new(kinds), var, g: Box::new(g) }
            }
            "@" => G::NewId(self.next().to_string()),
            "=" => G::UseId(self.next().to_string()),
            name => {
                let i = *self.index.get(name).unwrap_or_else(|| panic!("grammar: unknown nonterminal {:?}", name));
                G::Ref(i)
            }
        }
    }
}

impl Grammar {
    pub fn parse(src: &str) -> Grammar {
        let toks = lex(src);
        // first pass: rule names
        let mut index = HashMap::new();
        let mut names = vec![];
        for k in 0..toks.len() {
            if toks[k] == ":=" {
                index.insert(toks[k - 1].clone(), names.len());
                names.push(toks[k - 1].clone());
            }
        }
        let tv: Vec<&str> = toks.iter().map(|s| s.as_str()).collect();
        let mut p = P { toks: tv, pos: 0, index: &index };
        let mut rules = vec![];
        while !p.peek().is_empty() {
            let name = p.next().to_string();
            p.expect(":=");
            let g = p.alt();
            p.expect(";");
            rules.push((name, g));
        }
        assert_eq!(rules.len(), names.len());
        Grammar { rules, index }
    }
}

// ---------------------------------------------------------------- expansion

pub struct Gen {
    pub g: Arc<Grammar>,
    defaults: Vec<Arc<Vec<It>>>,
    pub contexts: Vec<Option<(Arc<Vec<It>>, Arc<Vec<It>>)>>,
    pub capped_rules: Vec<String>,
}

fn tok(s: &str) -> It {
    It::Tok(Arc::from(s))
}

impl Gen {
    pub fn new(src: &str) -> Gen {
        let g = Arc::new(Grammar::parse(src));
        let n = g.rules.len();
        let mut gen = Gen { g: g.clone(), defaults: vec![Arc::new(vec![]); n], contexts: vec![None; n], capped_rules: vec![] };
        // defaults by memoised recursion
        let mut state = vec![0u8; n];
        for r in 0..n {
            gen.default_rule(r, &mut state);
        }
        // contexts by BFS from rule 0
        let mut q = VecDeque::new();
        gen.contexts[0] = Some((Arc::new(vec![]), Arc::new(vec![])));
        q.push_back(0usize);
        while let Some(p) = q.pop_front() {
            let (pre, post) = gen.contexts[p].clone().unwrap();
            let body = g.rules[p].1.clone();
            for (r, h) in gen.holes(&body) {
                if gen.contexts[r].is_none() {
                    let k = h.iter().position(|i| matches!(i, It::Hole)).unwrap();
                    let mut npre = (*pre).clone();
                    npre.extend_from_slice(&h[..k]);
                    let mut npost = h[k + 1..].to_vec();
                    npost.extend_from_slice(&post);
                    gen.contexts[r] = Some((Arc::new(npre), Arc::new(npost)));
                    q.push_back(r);
                }
            }
        }
        gen
    }

    fn default_rule(&mut self, r: usize, state: &mut Vec<u8>) -> Arc<Vec<It>> {
        if state[r] == 2 {
            return self.defaults[r].clone();
        }
        assert!(state[r] == 0, "grammar: default expansion of {:?} is recursive", self.g.rules[r].0);
        state[r] = 1;
        let body = self.g.rules[r].1.clone();
        let d = self.default_of(&body, state);
        self.defaults[r] = Arc::new(d);
        state[r] = 2;
        self.defaults[r].clone()
    }

    fn default_of(&mut self, g: &G, state: &mut Vec<u8>) -> Vec<It> {
        match g {
            G::Lit(s) => vec![tok(s)],
            G::Ref(r) => (*self.default_rule(*r, state)).clone(),
            G::Opt(_) => vec![],
            G::Rep { g, sep, lo, .. } => {
                let mut out = vec![];
                for k in 0..*lo {
                    if k > 0 {
                        if let Some(s) = sep {
                            out.push(tok(s));
                        }
                    }
                    out.extend(self.default_of(g, state));
                }
                out
            }
            G::Seq(v) => v.iter().flat_map(|x| self.default_of(x, state)).collect(),
            G::Alt(v) => self.default_of(&v[0], state),
            G::Fact { kinds, var, g } => {
                let mut out = vec![It::Open(kinds.clone(), var.as_ref().map(|v| Arc::from(v.as_str())))];
                out.extend(self.default_of(g, state));
                out.push(It::Close);
                out
            }
            G::NewId(v) => vec![It::NewId(Arc::from(v.as_str()))],
            G::UseId(v) => vec![It::UseId(Arc::from(v.as_str()))],
        }
    }

    fn dflt(&self, g: &G) -> Vec<It> {
        match g {
            G::Lit(s) => vec![tok(s)],
            G::Ref(r) => (*self.defaults[*r]).clone(),
            G::Opt(_) => vec![],
            G::Rep { g, sep, lo, .. } => self.repeat(&self.dflt(g), sep, *lo),
            G::Seq(v) => v.iter().flat_map(|x| self.dflt(x)).collect(),
            G::Alt(v) => self.dflt(&v[0]),
            G::Fact { kinds, var, g } => {
                let mut out = vec![It::Open(kinds.clone(), var.as_ref().map(|v| Arc::from(v.as_str())))];
                out.extend(self.dflt(g));
                out.push(It::Close);
                out
            }
            G::NewId(v) => vec![It::NewId(Arc::from(v.as_str()))],
            G::UseId(v) => vec![It::UseId(Arc::from(v.as_str()))],
        }
    }

    fn repeat(&self, one: &[It], sep: &Option<String>, n: usize) -> Vec<It> {
        let mut out = vec![];
        for k in 0..n {
            if k > 0 {
                if let Some(s) = sep {
                    out.push(tok(s));
                }
            }
            out.extend_from_slice(one);
        }
        out
    }

    /// minimal derivations of `g` that contain one nonterminal occurrence as a hole
    fn holes(&self, g: &G) -> Vec<(usize, Vec<It>)> {
        match g {
            G::Lit(_) | G::NewId(_) | G::UseId(_) => vec![],
            G::Ref(r) => vec![(*r, vec![It::Hole])],
            G::Opt(g) => self.holes(g),
            G::Rep { g, sep, lo, .. } => {
                let c = (*lo).max(1);
                let d = self.dflt(g);
                self.holes(g)
                    .into_iter()
                    .map(|(r, h)| {
                        let mut out = h;
                        for _ in 1..c {
                            if let Some(s) = sep {
                                out.push(tok(s));
                            }
                            out.extend_from_slice(&d);
                        }
                        (r, out)
                    })
                    .collect()
            }
            G::Seq(v) => {
                let mut out = vec![];
                for i in 0..v.len() {
                    for (r, h) in self.holes(&v[i]) {
                        let mut d: Vec<It> = v[..i].iter().flat_map(|x| self.dflt(x)).collect();
                        d.extend(h);
                        d.extend(v[i + 1..].iter().flat_map(|x| self.dflt(x)));
                        out.push((r, d));
                    }
                }
                out
            }
            G::Alt(v) => v.iter().flat_map(|x| self.holes(x)).collect(),
            G::Fact { kinds, var, g } => self
                .holes(g)
                .into_iter()
                .map(|(r, h)| {
                    let mut out = vec![It::Open(kinds.clone(), var.as_ref().map(|v| Arc::from(v.as_str())))];
                    out.extend(h);
                    out.push(It::Close);
                    (r, out)
                })
                .collect(),
        }
    }

    /// all combinations of the choices written in `g` (nonterminals by default)
    fn variants(&self, g: &G, capped: &mut bool) -> Space<Vec<It>> {
        match g {
            G::Lit(_) | G::Ref(_) | G::NewId(_) | G::UseId(_) => Space::unit(self.dflt(g)),
            G::Opt(x) => Space::sum(vec![Space::unit(vec![]), self.variants(x, capped)]),
            G::Rep { g: x, sep, lo, hi } => {
                let d = self.dflt(x);
                let full_at = (*lo).max(1);
                let mut parts = vec![];
                for c in *lo..=*hi {
                    if c == 0 {
                        parts.push(Space::unit(vec![]));
                    } else if c == full_at {
                        let rest: Vec<It> = {
                            let mut r = vec![];
                            for _ in 1..c {
                                if let Some(s) = sep {
                                    r.push(tok(s));
                                }
                                r.extend_from_slice(&d);
                            }
                            r
                        };
                        parts.push(self.variants(x, capped).map(move |mut v| {
                            v.extend_from_slice(&rest);
                            v
                        }));
                    } else {
                        parts.push(Space::unit(self.repeat(&d, sep, c)));
                    }
                }
                Space::sum(parts)
            }
            G::Seq(v) => {
                let subs: Vec<Space<Vec<It>>> = v.iter().map(|x| self.variants(x, capped)).collect();
                let mut total: u64 = 1;
                let mut over = false;
                for s in &subs {
                    match total.checked_mul(s.len()) {
                        Some(t) if t <= CAP => total = t,
                        _ => over = true,
                    }
                }
                if !over {
                    let mut acc: Space<Vec<It>> = Space::unit(vec![]);
                    for s in subs {
                        acc = acc.product(s).map(|(mut a, b)| {
                            a.extend(b);
                            a
                        });
                    }
                    acc
                } else {
                    // too many combinations: vary one child at a time, the others by default
                    *capped = true;
                    let defs: Vec<Vec<It>> = v.iter().map(|x| self.dflt(x)).collect();
                    let mut parts = vec![];
                    for (i, s) in subs.into_iter().enumerate() {
                        let pre: Vec<It> = defs[..i].iter().flatten().cloned().collect();
                        let post: Vec<It> = defs[i + 1..].iter().flatten().cloned().collect();
                        parts.push(s.map(move |m| {
                            let mut o = pre.clone();
                            o.extend(m);
                            o.extend_from_slice(&post);
                            o
                        }));
                    }
                    Space::sum(parts)
                }
            }
            G::Alt(v) => Space::sum(v.iter().map(|x| self.variants(x, capped)).collect()),
            G::Fact { kinds, var, g } => {
                let k = kinds.clone();
                let va: Option<Arc<str>> = var.as_ref().map(|v| Arc::from(v.as_str()));
                self.variants(g, capped).map(move |v| {
                    let mut out = vec![It::Open(k.clone(), va.clone())];
                    out.extend(v);
                    out.push(It::Close);
                    out
                })
            }
        }
    }

    /// top-level alternatives of the element of a repetition (defaults)
    fn element_alts(&self, g: &G) -> Vec<Vec<It>> {
        match g {
            G::Ref(r) => match &self.g.rules[*r].1 {
                G::Alt(v) => v.iter().map(|x| self.dflt(x)).collect(),
                _ => vec![],
            },
            G::Alt(v) => v.iter().map(|x| self.dflt(x)).collect(),
            _ => vec![],
        }
    }

    fn reps<'a>(&self, g: &'a G, out: &mut Vec<&'a G>) {
        match g {
            G::Rep { g: x, hi, .. } => {
                if *hi >= 2 {
                    out.push(g);
                }
                self.reps(x, out);
            }
            G::Opt(x) | G::Fact { g: x, .. } => self.reps(x, out),
            G::Seq(v) | G::Alt(v) => v.iter().for_each(|x| self.reps(x, out)),
            _ => {}
        }
    }

    /// (rule name, derivation) for every rule x every local choice combination
    pub fn sentences(&mut self) -> Space<(String, Vec<It>)> {
        let mut parts = vec![];
        for r in 0..self.g.rules.len() {
            let Some((pre, post)) = self.contexts[r].clone() else { continue };
            let mut capped = false;
            let body = self.g.rules[r].1.clone();
            let v = self.variants(&body, &mut capped);
            if capped {
                self.capped_rules.push(self.g.rules[r].0.clone());
            }
            let name = self.g.rules[r].0.clone();
            parts.push(v.map(move |m| {
                let mut o = (*pre).clone();
                o.extend(m);
                o.extend_from_slice(&post);
                (name.clone(), o)
            }));
        }
        Space::sum(parts)
    }

    /// the default derivation of every reachable rule in its context
    pub fn rule_defaults(&self) -> Vec<(String, Vec<It>)> {
        let mut out = vec![];
        for r in 0..self.g.rules.len() {
            let Some((pre, post)) = self.contexts[r].clone() else { continue };
            let mut o = (*pre).clone();
            o.extend_from_slice(&self.defaults[r]);
            o.extend_from_slice(&post);
            out.push((self.g.rules[r].0.clone(), o));
        }
        out
    }

    /// every ordered pair of element alternatives for every repetition (hi >= 2)
    pub fn pairs(&self) -> Space<(String, Vec<It>)> {
        let mut parts = vec![];
        for r in 0..self.g.rules.len() {
            let Some((pre, post)) = self.contexts[r].clone() else { continue };
            let body = &self.g.rules[r].1;
            let mut reps = vec![];
            self.reps(body, &mut reps);
            for rep in reps {
                let G::Rep { g: x, sep, .. } = rep else { continue };
                let alts = self.element_alts(x);
                if alts.len() < 2 {
                    continue;
                }
                // derivation of the body with this repetition as the hole
                let Some(frame) = self.frame_for(body, rep) else { continue };
                let k = frame.iter().position(|i| matches!(i, It::Hole)).unwrap();
                let name = format!("{}[pairs]", self.g.rules[r].0);
                let n = alts.len() as u64;
                let (alts, sep, frame, pre, post) = (Arc::new(alts), sep.clone(), Arc::new(frame), pre.clone(), post.clone());
                parts.push(Space::new(n * n, move |i| {
                    let (a, b) = ((i / n) as usize, (i % n) as usize);
                    let mut o = (*pre).clone();
                    o.extend_from_slice(&frame[..k]);
                    o.extend_from_slice(&alts[a]);
                    if let Some(s) = &sep {
                        o.push(tok(s));
                    }
                    o.extend_from_slice(&alts[b]);
                    o.extend_from_slice(&frame[k + 1..]);
                    o.extend_from_slice(&post);
                    (name.clone(), o)
                }));
            }
        }
        Space::sum(parts)
    }

    /// default derivation of `g` with the sub-term `target` (by address) replaced by a hole
    fn frame_for(&self, g: &G, target: &G) -> Option<Vec<It>> {
        if std::ptr::eq(g, target) {
            return Some(vec![It::Hole]);
        }
        match g {
            G::Opt(x) => self.frame_for(x, target),
            G::Rep { g: x, .. } => self.frame_for(x, target),
            G::Seq(v) => {
                for i in 0..v.len() {
                    if let Some(h) = self.frame_for(&v[i], target) {
                        let mut d: Vec<It> = v[..i].iter().flat_map(|x| self.dflt(x)).collect();
                        d.extend(h);
                        d.extend(v[i + 1..].iter().flat_map(|x| self.dflt(x)));
                        return Some(d);
                    }
                }
                None
            }
            G::Alt(v) => v.iter().find_map(|x| self.frame_for(x, target)),
            G::Fact { kinds, var, g } => self.frame_for(g, target).map(|h| {
                let mut out = vec![It::Open(kinds.clone(), var.as_ref().map(|v| Arc::from(v.as_str())))];
                out.extend(h);
                out.push(It::Close);
                out
            }),
            _ => None,
        }
    }
}

// ---------------------------------------------------------------- rendering

#[derive(Debug, Clone)]
pub struct Fact {
    pub kinds: Arc<Vec<String>>,
    pub start: usize,
    pub end: usize,
    pub ident: Option<String>,
    /// when set, the identifier is the first one under the shallowest descendant of this kind
    pub ident_under: Option<String>,
}

#[derive(Debug, Clone)]
pub struct Sentence {
    pub text: String,
    /// (start, end, is_identifier)
    pub toks: Vec<(usize, usize, bool)>,
    pub facts: Vec<Fact>,
    pub bindings: usize,
}

pub const LAYOUTS: [&str; 3] = [" ", "\n  ", " /*c*/ "];

pub const ADVERSARIAL: [&str; 12] = ["id", "module_x", "end1", "wirex", "beginx", "inputs", "\\esc+id", "x$y", "_0", "logicx", "endmodule_", "\\module"];

fn ident_name(var: &str, n: usize, pool: usize) -> String {
    let base = ADVERSARIAL[(pool + if pool == 0 { 0 } else { n }) % ADVERSARIAL.len()];
    if pool == 0 {
        format!("{}_{}", var, n)
    } else {
        format!("{}_{}", base, n)
    }
}

pub fn render(items: &[It], layout: &str, pool: usize) -> Sentence {
    render_with(items, layout, pool, None)
}

/// number of distinct identifier bindings a derivation creates
pub fn binding_count(items: &[It]) -> usize {
    render_with(items, " ", 0, None).bindings
}

/// like `render`; `over` = (k, name) gives the k-th identifier binding (1-based) that name
pub fn render_with(items: &[It], layout: &str, pool: usize, over: Option<(usize, &str)>) -> Sentence {
    // scopes of identifier bindings follow the facts
    let mut scopes: Vec<HashMap<String, String>> = vec![HashMap::new()];
    let mut counter = 0usize;
    let mut text = String::new();
    let mut toks = vec![];
    let mut facts: Vec<Fact> = vec![];
    let mut open: Vec<(usize, Option<Arc<str>>, usize)> = vec![]; // (fact index, var, first token index)
    let mut push_tok = |text: &mut String, toks: &mut Vec<(usize, usize, bool)>, s: &str, is_id: bool| {
        if !text.is_empty() {
            text.push_str(layout);
        }
        let st = text.len();
        text.push_str(s);
        toks.push((st, text.len(), is_id));
    };
    for it in items {
        match it {
            It::Tok(s) => push_tok(&mut text, &mut toks, s, false),
            It::NewId(v) => {
                counter += 1;
                let name = match over {
                    Some((k, n)) if k == counter => n.to_string(),
                    _ => ident_name(v, counter, pool),
                };
                scopes.last_mut().unwrap().insert(v.to_string(), name.clone());
                push_tok(&mut text, &mut toks, &name, true);
            }
            It::UseId(v) => {
                let found = scopes.iter().rev().find_map(|s| s.get(&**v).cloned());
                let name = match found {
                    Some(n) => n,
                    None => {
                        counter += 1;
                        let name = match over {
                            Some((k, n)) if k == counter => n.to_string(),
                            _ => ident_name(v, counter, pool),
                        };
                        scopes[0].insert(v.to_string(), name.clone());
                        name
                    }
                };
                push_tok(&mut text, &mut toks, &name, true);
            }
            It::Open(kinds, var) => {
                facts.push(Fact { kinds: kinds.clone(), start: usize::MAX, end: 0, ident: None, ident_under: None });
                open.push((facts.len() - 1, var.clone(), toks.len()));
                scopes.push(HashMap::new());
            }
            It::Close => {
                let (fi, var, first) = open.pop().expect("unbalanced fact");
                let sc = scopes.pop().unwrap();
                if first < toks.len() {
                    facts[fi].start = toks[first].0;
                    facts[fi].end = toks[toks.len() - 1].1;
                }
                if let Some(v) = var {
                    let (v, under) = match v.split_once('/') {
                        Some((a, b)) => (a.to_string(), Some(b.to_string())),
                        None => (v.to_string(), None),
                    };
                    facts[fi].ident = sc.get(&v).cloned().or_else(|| scopes.iter().rev().find_map(|s| s.get(&v).cloned()));
                    facts[fi].ident_under = under;
                }
            }
            It::Hole => panic!("hole in a finished derivation"),
        }
    }
    // an escaped identifier must be followed by white space
    text.push('\n');
    facts.retain(|f| f.start != usize::MAX);
    Sentence { text, toks, facts, bindings: counter }
}

pub fn grammar_text() -> &'static str {
    include_str!("../models/sv_grammar.txt")
}
