pub mod kwprogs;
pub mod sched;
pub mod soup;
pub mod svgen;
