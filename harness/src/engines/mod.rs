pub mod soup;
pub mod svgen;
