pub mod kwprogs;
pub mod soup;
pub mod svgen;
