pub mod soup;
