//! Keyword-region programs: every sequence of <= n segments from
//! { `begin_keywords "v" (3 versions), `end_keywords, 4 probe modules, a `define }.
//! Unbalanced and unclosed regions are members of the space on purpose.

use crate::core::space::Space;

#[derive(Clone, Copy, Debug, PartialEq)]
pub enum Seg {
    Begin(&'static str),
    End,
    Mod(usize),
    /// a directive that survives preprocessing and is lexed with the directive-name keyword set
    Define,
}

pub const VERSIONS: [&str; 3] = ["1364-2001", "1800-2005", "1800-2017"];

/// (body, identifier used as a name in it or "" if none)
pub const BODIES: [(&str, &str); 4] = [("wire w;", ""), ("reg logic;", "logic"), ("logic a;", ""), ("wire do;", "do")];

pub fn alphabet() -> Vec<Seg> {
    let mut v: Vec<Seg> = VERSIONS.iter().map(|x| Seg::Begin(x)).collect();
    v.push(Seg::End);
    for i in 0..BODIES.len() {
        v.push(Seg::Mod(i));
    }
    v.push(Seg::Define);
    v
}

pub fn programs(lo: usize, hi: usize) -> Space<Vec<Seg>> {
    Space::of(alphabet()).seq_range(lo, hi)
}

pub fn render(p: &[Seg]) -> String {
    let mut s = String::new();
    for (k, seg) in p.iter().enumerate() {
        match seg {
            Seg::Begin(v) => s.push_str(&format!("`begin_keywords \"{}\"\n", v)),
            Seg::End => s.push_str("`end_keywords\n"),
            Seg::Mod(b) => s.push_str(&format!("module m{}; {} endmodule\n", k, BODIES[*b].0)),
            Seg::Define => s.push_str(&format!("`define D{} {}\n", k, k)),
        }
    }
    s
}

/// keyword version in force for each Mod segment (None = default set), per IEEE 22.14:
/// the innermost open region; an `end_keywords without open region is ill-formed
pub fn versions_in_force(p: &[Seg]) -> Option<Vec<(usize, Option<&'static str>)>> {
    let mut stack: Vec<&'static str> = vec![];
    let mut out = vec![];
    for (k, seg) in p.iter().enumerate() {
        match seg {
            Seg::Begin(v) => stack.push(v),
            Seg::End => {
                stack.pop()?;
            }
            Seg::Mod(_) => out.push((k, stack.last().copied())),
            Seg::Define => {}
        }
    }
    Some(out)
}
