//! E2/R2: structured preprocessor programs and the reference preprocessor.
//!
//! A program is a tree of `Item`s; `render` turns it into bytes and remembers where every item
//! went; `Interp` interprets the *tree* according to IEEE 1800-2017 22.4-22.6 (first true branch,
//! define table threaded through includes and expansions, formals/defaults, `` `" `\`", nested
//! usages expanded at the point of use, strings untouched, recursion limit 64) and yields the
//! expected output as a list of pieces with provenance, the expected final define table, or the
//! expected error. White space of the output is never predicted.

use super::lexref::{self, K};
use std::collections::BTreeMap;

#[derive(Clone, Debug, PartialEq)]
pub enum IncStyle {
    Quote,
    Angle,
    /// `include `M   where M is defined as the quoted file name
    ViaMacro(String),
}

#[derive(Clone, Debug, PartialEq)]
pub enum Item {
    /// a marker token; the renderer gives it a unique name tN
    Text,
    /// literal text copied verbatim (must lex to non-directive lexemes)
    Lit(String),
    Str(String),
    Cmt(String),
    Define { name: String, formals: Option<Vec<(String, Option<String>)>>, body: String },
    Undef(String),
    UndefAll,
    Usage { name: String, args: Option<Vec<String>> },
    Cond { neg: bool, name: String, then: Vec<Item>, elsifs: Vec<(String, Vec<Item>)>, els: Option<Vec<Item>> },
    Include { file: String, style: IncStyle },
    Kept(String),
    Line,
    File,
}

#[derive(Clone, Copy, Debug, PartialEq)]
pub enum Layout {
    /// every item on its own line
    OwnLine,
    /// items separated by a blank where the language allows it
    Inline,
    /// own line, indented by nesting depth, CRLF line ends
    IndentCrlf,
}

#[derive(Clone, Debug, Default)]
pub struct Pos {
    pub start: usize,
    pub end: usize,
    pub line: usize,
    /// for Define: span of the body text inside the file
    pub body: Option<(usize, usize)>,
    /// marker name for Text items
    pub marker: Option<String>,
}

#[derive(Clone, Debug, Default)]
pub struct Rendered {
    pub text: String,
    /// pre-order positions of all items (Cond counts itself, then its branches in order)
    pub pos: Vec<Pos>,
}

pub fn count(items: &[Item]) -> usize {
    items
        .iter()
        .map(|i| match i {
            Item::Cond { then, elsifs, els, .. } => 1 + count(then) + elsifs.iter().map(|(_, b)| count(b)).sum::<usize>() + els.as_ref().map(|b| count(b)).unwrap_or(0),
            _ => 1,
        })
        .sum()
}

struct R {
    out: String,
    pos: Vec<Pos>,
    layout: Layout,
    markers: usize,
    prefix: String,
    /// true when the current line already holds something
    dirty: bool,
}

impl R {
    fn nl(&self) -> &'static str {
        if self.layout == Layout::IndentCrlf {
            "\r\n"
        } else {
            "\n"
        }
    }
    fn line(&self) -> usize {
        1 + self.out.bytes().filter(|b| *b == b'\n').count()
    }
    fn newline(&mut self) {
        let nl = self.nl();
        self.out.push_str(nl);
        self.dirty = false;
    }
    fn sep(&mut self, depth: usize, own_line: bool) {
        match self.layout {
            Layout::Inline if !own_line => {
                if self.dirty {
                    self.out.push(' ');
                }
            }
            _ => {
                if self.dirty {
                    self.newline();
                }
                if self.layout == Layout::IndentCrlf {
                    for _ in 0..depth {
                        self.out.push_str("  ");
                    }
                }
            }
        }
    }
    fn emit(&mut self, s: &str) -> (usize, usize, usize) {
        let line = self.line();
        let st = self.out.len();
        self.out.push_str(s);
        self.dirty = true;
        (st, self.out.len(), line)
    }
    fn items(&mut self, items: &[Item], depth: usize) {
        for it in items {
            self.item(it, depth);
        }
    }
    fn item(&mut self, it: &Item, depth: usize) {
        let idx = self.pos.len();
        self.pos.push(Pos::default());
        match it {
            Item::Text => {
                self.sep(depth, false);
                self.markers += 1;
                let name = format!("{}{}", self.prefix, self.markers);
                let (s, e, l) = self.emit(&name);
                self.pos[idx] = Pos { start: s, end: e, line: l, body: None, marker: Some(name) };
            }
            Item::Lit(t) | Item::Str(t) => {
                self.sep(depth, false);
                let (s, e, l) = self.emit(t);
                self.pos[idx] = Pos { start: s, end: e, line: l, ..Default::default() };
            }
            Item::Cmt(t) => {
                self.sep(depth, false);
                let (s, e, l) = self.emit(t);
                self.pos[idx] = Pos { start: s, end: e, line: l, ..Default::default() };
                if t.starts_with("//") {
                    self.newline();
                }
            }
            Item::Define { name, formals, body } => {
                self.sep(depth, false);
                let mut head = format!("`define {}", name);
                if let Some(f) = formals {
                    head.push('(');
                    head.push_str(&f.iter().map(|(n, d)| match d { Some(d) => format!("{} = {}", n, d), None => n.clone() }).collect::<Vec<_>>().join(", "));
                    head.push(')');
                }
                let line = self.line();
                let st = self.out.len();
                self.out.push_str(&head);
                let mut bspan = None;
                if !body.is_empty() {
                    // the macro text starts right after the name / formal list (its leading blank included)
                    let b = self.out.len();
                    self.out.push(' ');
                    // line continuations follow the file's line-end convention
                    if self.layout == Layout::IndentCrlf {
                        self.out.push_str(&body.replace("\\\n", "\\\r\n"));
                    } else {
                        self.out.push_str(body);
                    }
                    bspan = Some((b, self.out.len()));
                }
                self.pos[idx] = Pos { start: st, end: self.out.len(), line, body: bspan, marker: None };
                self.dirty = true;
                self.newline();
            }
            Item::Undef(n) => {
                self.sep(depth, false);
                let (s, e, l) = self.emit(&format!("`undef {}", n));
                self.pos[idx] = Pos { start: s, end: e, line: l, ..Default::default() };
            }
            Item::UndefAll => {
                self.sep(depth, false);
                let (s, e, l) = self.emit("`undefineall");
                self.pos[idx] = Pos { start: s, end: e, line: l, ..Default::default() };
            }
            Item::Usage { name, args } => {
                self.sep(depth, false);
                let mut t = format!("`{}", name);
                if let Some(a) = args {
                    t.push('(');
                    t.push_str(&a.join(", "));
                    t.push(')');
                }
                let (s, e, l) = self.emit(&t);
                self.pos[idx] = Pos { start: s, end: e, line: l, ..Default::default() };
            }
            Item::Cond { neg, name, then, elsifs, els } => {
                self.sep(depth, false);
                let (s, _, l) = self.emit(&format!("`{} {}", if *neg { "ifndef" } else { "ifdef" }, name));
                self.items(then, depth + 1);
                for (n, b) in elsifs {
                    self.sep(depth, false);
                    self.emit(&format!("`elsif {}", n));
                    self.items(b, depth + 1);
                }
                if let Some(b) = els {
                    self.sep(depth, false);
                    self.emit("`else");
                    self.items(b, depth + 1);
                }
                self.sep(depth, false);
                let (_, e, _) = self.emit("`endif");
                self.pos[idx] = Pos { start: s, end: e, line: l, ..Default::default() };
            }
            Item::Include { file, style } => {
                // only white space or a comment may share the line
                self.sep(depth, true);
                let t = match style {
                    IncStyle::Quote => format!("`include \"{}\"", file),
                    IncStyle::Angle => format!("`include <{}>", file),
                    IncStyle::ViaMacro(m) => format!("`include `{}", m),
                };
                let (s, e, l) = self.emit(&t);
                self.pos[idx] = Pos { start: s, end: e, line: l, ..Default::default() };
                self.newline();
            }
            Item::Kept(t) => {
                self.sep(depth, false);
                let (s, e, l) = self.emit(t);
                self.pos[idx] = Pos { start: s, end: e, line: l, ..Default::default() };
                if t.starts_with("`timescale") || t.starts_with("`line") || t.starts_with("`pragma") || t.starts_with("`default_nettype") {
                    // argument-bearing directives: keep the following token off their line in Inline too
                    self.newline();
                }
            }
            Item::Line => {
                self.sep(depth, false);
                let (s, e, l) = self.emit("`__LINE__");
                self.pos[idx] = Pos { start: s, end: e, line: l, ..Default::default() };
            }
            Item::File => {
                self.sep(depth, false);
                let (s, e, l) = self.emit("`__FILE__");
                self.pos[idx] = Pos { start: s, end: e, line: l, ..Default::default() };
            }
        }
    }
}

/// `prefix` makes the marker tokens of different files distinguishable
pub fn render(items: &[Item], layout: Layout, prefix: &str) -> Rendered {
    let mut r = R { out: String::new(), pos: vec![], layout, markers: 0, prefix: prefix.to_string(), dirty: false };
    r.items(items, 0);
    if r.dirty {
        r.newline();
    }
    Rendered { text: r.out, pos: r.pos }
}

// ------------------------------------------------------------------ the reference interpreter

#[derive(Clone, Debug, PartialEq)]
pub struct Def {
    pub name: String,
    pub formals: Vec<(String, Option<String>)>,
    pub body: Option<String>,
    /// (file, body span) when the definition stands in a file's text
    pub origin: Option<(String, usize, usize)>,
}

pub type Table = BTreeMap<String, Option<Def>>;

#[derive(Clone, Debug, PartialEq)]
pub enum PErr {
    DefineNotFound(String),
    DefineArgNotFound(String),
    DefineNoArgs(String),
    ExceedRecursiveLimit,
    IncludeLine,
    /// include of a file found nowhere: path as written
    IncludeFileMissing(String),
    /// an error inside an included file, wrapped once per level
    Include(Box<PErr>),
    /// the model declines to predict (e.g. an expansion that does not lex)
    Abstain,
}

#[derive(Clone, Debug, PartialEq)]
pub enum Prov {
    /// copied from (file, offset of this lexeme)
    Copied(String, usize),
    /// produced by expanding a macro whose definition is at (file, body start), if it has one
    Expansion(Option<(String, usize)>),
    /// synthesised (`__LINE__, `__FILE__)
    Synth,
}

#[derive(Clone, Debug, PartialEq)]
pub struct Piece {
    pub text: String,
    pub prov: Prov,
}

pub struct Vfs {
    /// path as it would be opened -> (items, rendered)
    pub files: BTreeMap<String, (Vec<Item>, Rendered)>,
}

/// switches that make the model reproduce a known defect (one per finding)
#[derive(Clone, Copy, Debug, Default)]
pub struct Emulate {
    /// `elsif tests the `ifdef/`ifndef identifier for being predefined (P2)
    pub elsif_tests_ifid_for_predefined: bool,
    /// ignore_include is not passed on into macro expansions (P7)
    pub expansion_ignores_ignore_include: bool,
    /// inside an expansion, usages that directly follow a string literal / escaped identifier are
    /// emitted raw in addition to being expanded (P1)
    pub literal_then_usage_raw: bool,
}

pub struct Interp<'a> {
    pub vfs: &'a Vfs,
    /// resolve an include name to the path that is opened (the search rule), None = found nowhere
    pub resolve: &'a dyn Fn(&str) -> Option<String>,
    pub ignore_include: bool,
    pub emu: Emulate,
    pub out: Vec<Piece>,
    pub table: Table,
    pub opened: Vec<String>,
}

pub const LIMIT: usize = 64;

fn predefined(n: &str) -> bool {
    n == "__LINE__" || n == "__FILE__"
}

impl<'a> Interp<'a> {
    pub fn new(vfs: &'a Vfs, resolve: &'a dyn Fn(&str) -> Option<String>, table: Table) -> Self {
        Interp { vfs, resolve, ignore_include: false, emu: Emulate::default(), out: vec![], table, opened: vec![] }
    }

    fn defined(&self, n: &str) -> bool {
        self.table.contains_key(n) || predefined(n)
    }

    /// interpret a file that has been rendered already
    pub fn run_file(&mut self, path: &str, include_depth: usize) -> Result<(), PErr> {
        if include_depth > LIMIT {
            return Err(PErr::ExceedRecursiveLimit);
        }
        let (items, rend) = self.vfs.files.get(path).unwrap_or_else(|| panic!("model: file {} not in vfs", path));
        let mut idx = 0usize;
        self.run_items(items, rend, path, &mut idx, include_depth)
    }

    fn run_items(&mut self, items: &[Item], rend: &Rendered, path: &str, idx: &mut usize, depth: usize) -> Result<(), PErr> {
        for it in items {
            let p = rend.pos[*idx].clone();
            *idx += 1;
            match it {
                Item::Text | Item::Lit(_) | Item::Str(_) | Item::Kept(_) | Item::Undef(_) | Item::UndefAll | Item::Define { .. } => {
                    let t = &rend.text[p.start..p.end];
                    self.out.push(Piece { text: t.to_string(), prov: Prov::Copied(path.to_string(), p.start) });
                    match it {
                        Item::Undef(n) => {
                            self.table.remove(n);
                        }
                        Item::UndefAll => self.table.clear(),
                        Item::Define { name, formals, body } => {
                            if !predefined(name) {
                                // (the text as it stands in the file: continuations carry the file's line ends)
                                let body_o = match p.body {
                                    Some((b, e)) if !body.is_empty() => Some(rend.text[b + 1..e].to_string()),
                                    _ => None,
                                };
                                let origin = p.body.map(|(b, e)| (path.to_string(), b, e));
                                self.table.insert(
                                    name.clone(),
                                    Some(Def { name: name.clone(), formals: formals.clone().unwrap_or_default(), body: body_o, origin }),
                                );
                            }
                        }
                        _ => {}
                    }
                }
                Item::Cmt(_) => {}
                Item::Usage { name, args } => {
                    let origin = match self.table.get(name) {
                        Some(Some(d)) => d.origin.as_ref().map(|(f, b, _)| (f.clone(), *b)),
                        _ => None,
                    };
                    let text = self.expand_usage(name, args.as_deref(), 1, path)?;
                    self.out.push(Piece { text, prov: Prov::Expansion(origin) });
                }
                Item::Cond { neg, name, then, elsifs, els } => {
                    let mut hit = self.defined(name) != *neg;
                    let ifid_predef = predefined(name);
                    if hit {
                        self.run_items(then, rend, path, idx, depth)?;
                    } else {
                        *idx += count(then);
                    }
                    for (n, b) in elsifs {
                        let cond = if self.emu.elsif_tests_ifid_for_predefined { self.table.contains_key(n) || ifid_predef } else { self.defined(n) };
                        if !hit && cond {
                            hit = true;
                            self.run_items(b, rend, path, idx, depth)?;
                        } else {
                            *idx += count(b);
                        }
                    }
                    if let Some(b) = els {
                        if !hit {
                            self.run_items(b, rend, path, idx, depth)?;
                        } else {
                            *idx += count(b);
                        }
                    }
                }
                Item::Include { file, style } => {
                    if self.ignore_include {
                        // nothing is read; a file name that comes out of a macro is still expanded text
                        if let IncStyle::ViaMacro(m) = style {
                            let origin = match self.table.get(m) {
                                Some(Some(d)) => d.origin.as_ref().map(|(f, b, _)| (f.clone(), *b)),
                                _ => None,
                            };
                            let text = self.expand_usage(m, None, 1, path)?;
                            self.out.push(Piece { text, prov: Prov::Expansion(origin) });
                        }
                        continue;
                    }
                    let name = match style {
                        IncStyle::ViaMacro(m) => {
                            let t = self.expand_usage(m, None, 1, path)?;
                            t.trim().trim_matches('"').to_string()
                        }
                        _ => file.clone(),
                    };
                    match (self.resolve)(&name) {
                        Some(real) => {
                            self.opened.push(real.clone());
                            self.run_file(&real, depth + 1).map_err(|e| PErr::Include(Box::new(e)))?;
                        }
                        None => return Err(PErr::Include(Box::new(PErr::IncludeFileMissing(name)))),
                    }
                }
                Item::Line => self.out.push(Piece { text: format!("{}", p.line), prov: Prov::Synth }),
                Item::File => self.out.push(Piece { text: format!("\"{}\"", path), prov: Prov::Synth }),
            }
        }
        Ok(())
    }

    /// text a usage expands to (IEEE 22.5.1), nested usages expanded with the table current now
    pub fn expand_usage(&mut self, name: &str, args: Option<&[String]>, depth: usize, path: &str) -> Result<String, PErr> {
        if depth > LIMIT {
            return Err(PErr::ExceedRecursiveLimit);
        }
        let def = match self.table.get(name) {
            None => return Err(PErr::DefineNotFound(name.to_string())),
            Some(None) => return Ok(String::new()),
            Some(Some(d)) => d.clone(),
        };
        if !def.formals.is_empty() && args.is_none() {
            return Err(PErr::DefineNoArgs(name.to_string()));
        }
        let mut map: BTreeMap<&str, String> = BTreeMap::new();
        for (i, (f, dflt)) in def.formals.iter().enumerate() {
            let actual = args.and_then(|a| a.get(i));
            let v = match actual {
                Some(a) if !a.trim().is_empty() => a.trim().to_string(),
                Some(_) => dflt.clone().unwrap_or_default(),
                None => match dflt {
                    Some(d) => d.clone(),
                    None => return Err(PErr::DefineArgNotFound(f.clone())),
                },
            };
            map.insert(f.as_str(), v);
        }
        let Some(body) = &def.body else { return Ok(String::new()) };
        let mut text = substitute(body, &map);
        if def.formals.is_empty() {
            if let Some(a) = args {
                // a parenthesised list after a macro without formals is ordinary text
                text.push('(');
                text.push_str(&a.join(", "));
                text.push(')');
            }
        }
        self.expand_text(&text, depth, path)
    }

    /// expand every usage inside `text`; compiler directives inside it are executed as they are
    /// in a source file (the text is re-scanned as source, IEEE 22.5.1)
    fn expand_text(&mut self, text: &str, depth: usize, path: &str) -> Result<String, PErr> {
        let lx = match lexref::lex(text) {
            Ok(l) => l,
            Err(_) => return Err(PErr::Abstain),
        };
        let mut i = 0;
        let out = self.expand_lexemes(text, &lx, &mut i, depth, path, false)?;
        if i < lx.len() {
            // an `elsif / `else / `endif without its `ifdef
            return Err(PErr::Abstain);
        }
        Ok(out)
    }

    /// index of the `elsif / `else / `endif that ends the group starting at `i` (nested chains skipped)
    fn skip_group(text: &str, lx: &[lexref::Lx], mut i: usize) -> Option<usize> {
        let mut nest = 0usize;
        while i < lx.len() {
            if lx[i].k == K::Bt {
                match &text[lx[i].b..lx[i].e] {
                    "`ifdef" | "`ifndef" => nest += 1,
                    "`endif" if nest > 0 => nest -= 1,
                    "`endif" | "`else" | "`elsif" if nest == 0 => return Some(i),
                    _ => {}
                }
            }
            i += 1;
        }
        None
    }

    /// the identifier that must follow a directive keyword at lexeme `i`
    fn word_after(text: &str, lx: &[lexref::Lx], i: usize) -> Option<(usize, String)> {
        let mut j = i + 1;
        while j < lx.len() && lx[j].k == K::Ws {
            j += 1;
        }
        if j < lx.len() && lx[j].k == K::Word && !text.as_bytes()[lx[j].b].is_ascii_digit() {
            Some((j, text[lx[j].b..lx[j].e].to_string()))
        } else {
            None
        }
    }

    fn expand_lexemes(&mut self, text: &str, lx: &[lexref::Lx], ip: &mut usize, depth: usize, path: &str, in_group: bool) -> Result<String, PErr> {
        let mut out = String::new();
        let mut i = *ip;
        while i < lx.len() {
            let l = &lx[i];
            let t = &text[l.b..l.e];
            if l.k == K::Bt {
                match t {
                    "`undef" => {
                        let Some((j, n)) = Self::word_after(text, lx, i) else { return Err(PErr::Abstain) };
                        out.push_str(&text[l.b..lx[j].e]);
                        self.table.remove(&n);
                        i = j + 1;
                        continue;
                    }
                    "`undefineall" => {
                        out.push_str(t);
                        self.table.clear();
                        i += 1;
                        continue;
                    }
                    "`define" => {
                        let Some((j, n)) = Self::word_after(text, lx, i) else { return Err(PErr::Abstain) };
                        if j + 1 < lx.len() && lx[j + 1].b == lx[j].e && &text[lx[j + 1].b..lx[j + 1].e] == "(" {
                            // formal arguments inside an expansion: outside the model
                            return Err(PErr::Abstain);
                        }
                        // the macro text runs to the end of the line
                        let rest = &text[lx[j].e..];
                        let eol = rest.find('\n').unwrap_or(rest.len());
                        let body = rest[..eol].trim().to_string();
                        if lexref::lex(&body).is_err() || body.contains("//") || body.contains("/*") {
                            return Err(PErr::Abstain);
                        }
                        let end = lx[j].e + eol;
                        out.push_str(&text[l.b..end]);
                        if !predefined(&n) {
                            // (the origin the implementation records for such a macro points into the expanded text, not into a file)
                            self.table.insert(n.clone(), Some(Def { name: n, formals: vec![], body: if body.is_empty() { None } else { Some(body) }, origin: Some((path.to_string(), 0, 0)) }));
                        }
                        i = j + 1;
                        while i < lx.len() && lx[i].b < end {
                            i += 1;
                        }
                        continue;
                    }
                    "`ifdef" | "`ifndef" => {
                        let Some((j, n)) = Self::word_after(text, lx, i) else { return Err(PErr::Abstain) };
                        let ifid_predef = predefined(&n);
                        let mut hit = self.defined(&n) != (t == "`ifndef");
                        i = j + 1;
                        let mut taken = hit;
                        loop {
                            if taken {
                                out.push_str(&self.expand_lexemes(text, lx, &mut i, depth, path, true)?);
                            } else {
                                i = Self::skip_group(text, lx, i).ok_or(PErr::Abstain)?;
                            }
                            if i >= lx.len() {
                                return Err(PErr::Abstain);
                            }
                            match &text[lx[i].b..lx[i].e] {
                                "`endif" => {
                                    i += 1;
                                    break;
                                }
                                "`else" => {
                                    taken = !hit;
                                    hit = true;
                                    i += 1;
                                }
                                "`elsif" => {
                                    let Some((j, n)) = Self::word_after(text, lx, i) else { return Err(PErr::Abstain) };
                                    let cond = if self.emu.elsif_tests_ifid_for_predefined { self.table.contains_key(&n) || ifid_predef } else { self.defined(&n) };
                                    taken = !hit && cond;
                                    if taken {
                                        hit = true;
                                    }
                                    i = j + 1;
                                }
                                _ => return Err(PErr::Abstain),
                            }
                        }
                        continue;
                    }
                    "`endif" | "`else" | "`elsif" => {
                        if in_group {
                            *ip = i;
                            return Ok(out);
                        }
                        return Err(PErr::Abstain);
                    }
                    "`include" | "`resetall" | "`celldefine" | "`endcelldefine" | "`timescale" | "`default_nettype" | "`unconnected_drive" | "`nounconnected_drive" | "`pragma" | "`line" | "`begin_keywords" | "`end_keywords" | "`__LINE__" => return Err(PErr::Abstain),
                    _ => {}
                }
            }
            if l.k == K::Bt && t.len() > 1 && t != "``" && t != "`\"" && t != "`\\`\"" {
                let name = &t[1..];
                if name == "__FILE__" {
                    out.push_str(&format!("\"{}\"", path));
                    i += 1;
                    continue;
                }
                // optional argument list: white space, then a balanced ( ... )
                let mut j = i + 1;
                while j < lx.len() && lx[j].k == K::Ws {
                    j += 1;
                }
                let mut args: Option<Vec<String>> = None;
                let mut after = i + 1;
                if j < lx.len() && &text[lx[j].b..lx[j].e] == "(" {
                    if let Some((a, close)) = split_args(text, &lx, j) {
                        args = Some(a);
                        after = close + 1;
                    }
                }
                let has_formals = matches!(self.table.get(name), Some(Some(d)) if !d.formals.is_empty());
                if !has_formals {
                    // the parenthesis is ordinary text and is expanded in its own right
                    let e = self.expand_usage(name, None, depth + 1, path)?;
                    out.push_str(&e);
                    i += 1;
                } else {
                    let e = self.expand_usage(name, args.as_deref(), depth + 1, path)?;
                    out.push_str(&e);
                    i = if args.is_some() { after } else { i + 1 };
                }
            } else {
                out.push_str(t);
                if self.emu.literal_then_usage_raw && matches!(l.k, K::Str | K::EscId) {
                    // raw copy of the run of trivia and usages that follows
                    let mut j = i + 1;
                    let mut raw_end = l.e;
                    while j < lx.len() {
                        let lj = &lx[j];
                        let tj = &text[lj.b..lj.e];
                        if lexref::is_trivia(lj.k) {
                            j += 1;
                        } else if lj.k == K::Bt && tj.len() > 1 && tj != "``" && tj != "`\"" && tj != "`\\`\"" {
                            raw_end = lj.e;
                            let mut q = j + 1;
                            while q < lx.len() && lx[q].k == K::Ws {
                                q += 1;
                            }
                            if q < lx.len() && &text[lx[q].b..lx[q].e] == "(" {
                                if let Some((_, close)) = split_args(text, &lx, q) {
                                    raw_end = lx[close].e;
                                    j = close + 1;
                                    continue;
                                }
                            }
                            j += 1;
                        } else {
                            break;
                        }
                    }
                    if raw_end > l.e {
                        out.push_str(&text[l.e..raw_end]);
                        out.push(' ');
                    }
                }
                i += 1;
            }
        }
        *ip = i;
        Ok(out)
    }
}

/// split the balanced parenthesis starting at lexeme `open` into top-level comma separated texts
fn split_args(text: &str, lx: &[lexref::Lx], open: usize) -> Option<(Vec<String>, usize)> {
    let mut depth = 0i32;
    let mut args = vec![];
    let mut cur_start = lx[open].e;
    let mut i = open;
    while i < lx.len() {
        let t = &text[lx[i].b..lx[i].e];
        if lx[i].k == K::Punct {
            match t {
                "(" | "[" | "{" => depth += 1,
                ")" | "]" | "}" => {
                    depth -= 1;
                    if depth == 0 {
                        args.push(text[cur_start..lx[i].b].trim().to_string());
                        return Some((args, i));
                    }
                }
                "," if depth == 1 => {
                    args.push(text[cur_start..lx[i].b].trim().to_string());
                    cur_start = lx[i].e;
                }
                _ => {}
            }
        }
        i += 1;
    }
    None
}

/// formal -> actual substitution, `` `" `\`" and line continuations (IEEE 22.5.1)
pub fn substitute(body: &str, map: &BTreeMap<&str, String>) -> String {
    let body = body.replace("\\\r\n", "\r\n").replace("\\\n", "\n");
    let lx = match lexref::lex(&body) {
        Ok(l) => l,
        Err(_) => return body,
    };
    let mut out = String::new();
    for l in &lx {
        let t = &body[l.b..l.e];
        match l.k {
            K::Word => match map.get(t) {
                Some(v) => out.push_str(v),
                None => out.push_str(t),
            },
            K::Bt if t == "``" => {}
            K::Bt if t == "`\"" => out.push('"'),
            K::Bt if t == "`\\`\"" => out.push_str("\\\""),
            K::LineCmt => {}
            _ => out.push_str(t),
        }
    }
    // leading white space of the macro text is not part of it
    out.trim_start().to_string()
}

/// significant lexemes of the expected output with their provenance
pub fn expected_lexemes(pieces: &[Piece]) -> Vec<(String, Prov, usize)> {
    let mut out = vec![];
    for (pi, p) in pieces.iter().enumerate() {
        if let Ok(lx) = lexref::lex_opts(&p.text, true) {
            for l in lx.iter().filter(|l| !lexref::is_trivia(l.k)) {
                let prov = match &p.prov {
                    Prov::Copied(f, o) => Prov::Copied(f.clone(), o + l.b),
                    x => x.clone(),
                };
                out.push((p.text[l.b..l.e].to_string(), prov, pi));
            }
        } else {
            out.push((p.text.clone(), p.prov.clone(), pi));
        }
    }
    out
}
