//! R1: reference lexer for the preprocessor's lexical layer (IEEE 1800-2017 5.x, 22.x),
//! written independently of the pp grammar of the parser under test.

#[derive(Clone, Copy, Debug, PartialEq, Eq)]
pub enum K {
    Ws,
    LineCmt,
    BlockCmt,
    Str,
    EscId,
    /// `name, and the body-only specials `` `" `\`"
    Bt,
    /// maximal run of [A-Za-z0-9_$]
    Word,
    /// any other single character
    Punct,
}

#[derive(Clone, Debug, PartialEq, Eq)]
pub struct Lx {
    pub k: K,
    pub b: usize,
    pub e: usize,
}

#[derive(Clone, Copy, Debug, PartialEq, Eq)]
pub enum Fault {
    UnterminatedString(usize),
    UnterminatedBlockComment(usize),
    LoneBackslash(usize),
    LoneBacktick(usize),
}

fn is_word(c: u8) -> bool {
    c.is_ascii_alphanumeric() || c == b'_' || c == b'$'
}
fn is_blank(c: u8) -> bool {
    c == b' ' || c == b'\t' || c == b'\n' || c == b'\r'
}

/// Lex `s` completely. Err carries the first lexical fault.
pub fn lex(s: &str) -> Result<Vec<Lx>, Fault> {
    lex_opts(s, false)
}

/// `continuations`: a backslash directly followed by a line end (line continuation inside a
/// `define) counts as white space instead of being a lone backslash
pub fn lex_opts(s: &str, continuations: bool) -> Result<Vec<Lx>, Fault> {
    let b = s.as_bytes();
    let n = b.len();
    let mut out = vec![];
    let mut i = 0;
    while i < n {
        let c = b[i];
        let st = i;
        if is_blank(c) {
            while i < n && is_blank(b[i]) {
                i += 1;
            }
            out.push(Lx { k: K::Ws, b: st, e: i });
        } else if c == b'/' && i + 1 < n && b[i + 1] == b'/' {
            while i < n && b[i] != b'\n' {
                i += 1;
            }
            // the newline ends the comment and belongs to it only in the sense of not being a token
            out.push(Lx { k: K::LineCmt, b: st, e: i });
        } else if c == b'/' && i + 1 < n && b[i + 1] == b'*' {
            i += 2;
            loop {
                if i + 1 >= n {
                    return Err(Fault::UnterminatedBlockComment(st));
                }
                if b[i] == b'*' && b[i + 1] == b'/' {
                    i += 2;
                    break;
                }
                i += 1;
            }
            out.push(Lx { k: K::BlockCmt, b: st, e: i });
        } else if c == b'"' {
            i += 1;
            loop {
                if i >= n {
                    return Err(Fault::UnterminatedString(st));
                }
                if b[i] == b'\\' {
                    if i + 1 >= n {
                        return Err(Fault::UnterminatedString(st));
                    }
                    i += 2;
                    continue;
                }
                if b[i] == b'"' {
                    i += 1;
                    break;
                }
                i += 1;
            }
            out.push(Lx { k: K::Str, b: st, e: i });
        } else if c == b'\\' && continuations && i + 1 < n && (b[i + 1] == b'\n' || (b[i + 1] == b'\r' && i + 2 < n && b[i + 2] == b'\n')) {
            i += if b[i + 1] == b'\n' { 2 } else { 3 };
            out.push(Lx { k: K::Ws, b: st, e: i });
        } else if c == b'\\' {
            i += 1;
            let s2 = i;
            while i < n && !is_blank(b[i]) {
                i += 1;
            }
            if i == s2 {
                return Err(Fault::LoneBackslash(st));
            }
            out.push(Lx { k: K::EscId, b: st, e: i });
        } else if c == b'`' {
            i += 1;
            if i < n && b[i] == b'`' {
                i += 1;
            } else if i < n && b[i] == b'"' {
                i += 1;
            } else if i + 2 < n && b[i] == b'\\' && b[i + 1] == b'`' && b[i + 2] == b'"' {
                i += 3;
            } else {
                let s2 = i;
                while i < n && is_word(b[i]) {
                    i += 1;
                }
                if i == s2 {
                    return Err(Fault::LoneBacktick(st));
                }
            }
            out.push(Lx { k: K::Bt, b: st, e: i });
        } else if is_word(c) {
            while i < n && is_word(b[i]) {
                i += 1;
            }
            out.push(Lx { k: K::Word, b: st, e: i });
        } else {
            // one character (possibly multi-byte)
            let ch = s[i..].chars().next().unwrap();
            i += ch.len_utf8();
            out.push(Lx { k: K::Punct, b: st, e: i });
        }
    }
    Ok(out)
}

pub fn is_trivia(k: K) -> bool {
    matches!(k, K::Ws | K::LineCmt | K::BlockCmt)
}

/// the significant lexemes (no white space, no comments) as strings
pub fn significant(s: &str) -> Result<Vec<String>, Fault> {
    Ok(lex_opts(s, true)?.into_iter().filter(|l| !is_trivia(l.k)).map(|l| s[l.b..l.e].to_string()).collect())
}

/// comment lexemes
pub fn comments(s: &str) -> Result<Vec<String>, Fault> {
    Ok(lex(s)?.into_iter().filter(|l| matches!(l.k, K::LineCmt | K::BlockCmt)).map(|l| s[l.b..l.e].to_string()).collect())
}

/// true when the text contains no compiler directive / macro usage (no backtick outside strings,
/// comments and escaped identifiers)
pub fn directive_free(lx: &[Lx]) -> bool {
    !lx.iter().any(|l| l.k == K::Bt)
}

/// Emulation of the known defect P1 (DESIGN.md 7): a string literal or escaped identifier is pushed
/// together with its trailing white space and comments, which are then pushed a second time.
pub fn emulate_p1(s: &str, strip_comments: bool) -> Option<String> {
    let lx = lex(s).ok()?;
    let mut out = String::new();
    let mut i = 0;
    // a string that is the argument of a directive (`define text, `line, `begin_keywords, `pragma,
    // `include) is part of that directive's node, not a literal of its own
    let mut directive_line = false;
    let mut next_str_is_argument = false;
    while i < lx.len() {
        let l = &lx[i];
        if l.k == K::Bt && matches!(&s[l.b..l.e], "`define" | "`line" | "`pragma") {
            directive_line = true;
        } else if l.k == K::Ws && s[l.b..l.e].contains('\n') {
            directive_line = false;
        }
        if l.k == K::Bt && matches!(&s[l.b..l.e], "`begin_keywords" | "`include") {
            next_str_is_argument = true;
        } else if l.k == K::Str && next_str_is_argument {
            next_str_is_argument = false;
            out.push_str(&s[l.b..l.e]);
            i += 1;
            continue;
        } else if !is_trivia(l.k) {
            next_str_is_argument = false;
        }
        if matches!(l.k, K::Str | K::EscId) && !directive_line {
            out.push_str(&s[l.b..l.e]);
            let mut j = i + 1;
            while j < lx.len() && is_trivia(lx[j].k) {
                j += 1;
            }
            // first copy: verbatim, as part of the literal's Locate (comments survive stripping here)
            for t in &lx[i + 1..j] {
                out.push_str(&s[t.b..t.e]);
            }
            // second copy: the trivia nodes visited one by one, tokenised the way white_space() does:
            // [ \t]+ is a Space (pushed), a stretch starting with a line end is a Newline (not
            // pushed), comments are pushed (a // comment owns its line end)
            if !strip_comments && j > i + 1 {
                let t = &s[lx[i + 1].b..lx[j - 1].e];
                let tb = t.as_bytes();
                let mut p = 0;
                while p < tb.len() {
                    let st = p;
                    if tb[p] == b' ' || tb[p] == b'\t' {
                        while p < tb.len() && (tb[p] == b' ' || tb[p] == b'\t') {
                            p += 1;
                        }
                        out.push_str(&t[st..p]);
                    } else if tb[p] == b'\r' || tb[p] == b'\n' {
                        while p < tb.len() && is_blank(tb[p]) {
                            p += 1;
                        }
                    } else if t[p..].starts_with("//") {
                        while p < tb.len() && tb[p] != b'\n' {
                            p += 1;
                        }
                        if p < tb.len() {
                            p += 1;
                        }
                        out.push_str(&t[st..p]);
                    } else if t[p..].starts_with("/*") {
                        p = t[p + 2..].find("*/").map(|k| p + 2 + k + 2).unwrap_or(tb.len());
                        out.push_str(&t[st..p]);
                    } else {
                        break;
                    }
                }
            }
            i = j;
        } else {
            if !(strip_comments && is_trivia(l.k) && l.k != K::Ws) {
                out.push_str(&s[l.b..l.e]);
            }
            i += 1;
        }
    }
    Some(out)
}

#[cfg(test)]
mod tests {
    use super::*;
    #[test]
    fn basics() {
        let s = "a \"x\\\"y\" // c\n`A(1)``b /* */ \\e+ z";
        let l = lex(s).unwrap();
        let v: Vec<&str> = l.iter().filter(|x| !is_trivia(x.k)).map(|x| &s[x.b..x.e]).collect();
        assert_eq!(v, vec!["a", "\"x\\\"y\"", "`A", "(", "1", ")", "``", "b", "\\e+", "z"]);
        assert_eq!(lex("\"abc"), Err(Fault::UnterminatedString(0)));
        assert_eq!(lex("a /* x"), Err(Fault::UnterminatedBlockComment(2)));
        assert_eq!(lex("\\ a"), Err(Fault::LoneBackslash(0)));
    }
}
