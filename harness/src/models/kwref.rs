//! R3: the reserved-word sets of IEEE 1364-1995 ... 1800-2017 (Annex B / Table 22-x) and the
//! compiler-directive names, typed in independently of sv-parser-parser/src/keywords.rs.

use std::collections::HashSet;

pub const VERSIONS: [&str; 8] = ["1364-1995", "1364-2001-noconfig", "1364-2001", "1364-2005", "1800-2005", "1800-2009", "1800-2012", "1800-2017"];

pub fn set(version: &str) -> HashSet<&'static str> {
    let t: &'static str = match version {
        "1364-1995" => include_str!("keywords/1364-1995.txt"),
        "1364-2001-noconfig" => include_str!("keywords/1364-2001-noconfig.txt"),
        "1364-2001" => include_str!("keywords/1364-2001.txt"),
        "1364-2005" => include_str!("keywords/1364-2005.txt"),
        "1800-2005" => include_str!("keywords/1800-2005.txt"),
        "1800-2009" => include_str!("keywords/1800-2009.txt"),
        "1800-2012" => include_str!("keywords/1800-2012.txt"),
        "1800-2017" => include_str!("keywords/1800-2017.txt"),
        "directive" => include_str!("keywords/directive.txt"),
        _ => panic!("unknown keyword version {}", version),
    };
    t.split_whitespace().collect()
}

pub fn union_all() -> Vec<&'static str> {
    let mut v: Vec<&'static str> = set("1800-2017").into_iter().collect();
    v.sort();
    v
}
