pub mod lexref;
