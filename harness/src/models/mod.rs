pub mod lexref;
pub mod ppref;
pub mod kwref;
