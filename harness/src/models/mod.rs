pub mod lexref;
pub mod ppref;
